----------------------------- MODULE ClassModel -----------------------------
(***************************************************************************)
(* C10: "classes, inheritance, super(), properties, __call__ ... evaluate  *)
(*  during compilation to exactly the values CPython produces".            *)
(*                                                                         *)
(* Attribute lookup and cooperative super() calls over a class hierarchy.  *)
(* A hierarchy is a sequence of classes 1..n; class i has an ordered list  *)
(* of bases (indices < i) and, for the member under test, a definition     *)
(* "none" | "leaf" (yields <<i>>) | "super" (yields <<i>> followed by      *)
(* whatever the next class in the instance's method resolution order       *)
(* yields).  The method resolution order is the C3 linearisation.          *)
(***************************************************************************)
EXTENDS Naturals, Sequences, FiniteSets

RECURSIVE Merge(_, _)
\* C3 merge of a sequence of sequences; <<0>> marks failure ("cannot create a consistent method resolution order")
InTail(x, s) == \E i \in 2..Len(s) : s[i] = x
Merge(seqs, fuel) ==
  LET live == SelectSeq(seqs, LAMBDA s : s # << >>) IN
  IF live = << >> THEN << >>
  ELSE IF fuel = 0 THEN <<0>>
  ELSE LET good == {i \in 1..Len(live) : \A j \in 1..Len(live) : ~InTail(live[i][1], live[j])} IN
       IF good = {} THEN <<0>>
       ELSE LET i == CHOOSE k \in good : \A q \in good : k <= q
                h == live[i][1]
                rest == Merge([j \in 1..Len(live) |-> SelectSeq(live[j], LAMBDA x : x # h)], fuel - 1)
            IN IF rest # << >> /\ rest[Len(rest)] = 0 THEN <<0>> ELSE <<h>> \o rest

RECURSIVE Lin(_, _)
\* H[c].bases : ordered sequence of base indices
Lin(H, c) ==
  LET bs == H[c].bases
      parts == [i \in 1..Len(bs) |-> Lin(H, bs[i])]
  IN IF \E i \in 1..Len(bs) : parts[i] # << >> /\ parts[i][Len(parts[i])] = 0 THEN <<0>>
     ELSE LET m == Merge(parts \o (IF bs = << >> THEN << >> ELSE <<bs>>), 16) IN
          IF m # << >> /\ m[Len(m)] = 0 THEN <<0>> ELSE <<c>> \o m

Consistent(H) == \A c \in 1..Len(H) : LET l == Lin(H, c) IN l[Len(l)] # 0

RECURSIVE Resolve(_, _, _)
\* what the member yields for an instance whose method resolution order is mro, searching from position i;
\* <<0>> = AttributeError (no class from position i on defines it)
Resolve(H, mro, i) ==
  IF i > Len(mro) THEN <<0>>
  ELSE LET d == H[mro[i]].def IN
       IF d = "none" THEN Resolve(H, mro, i + 1)
       ELSE IF d = "leaf" THEN <<mro[i]>>
       ELSE <<mro[i]>> \o Resolve(H, mro, i + 1)

\* the member looked up on an instance of class c
Lookup(H, c) == Resolve(H, Lin(H, c), 1)
=============================================================================
