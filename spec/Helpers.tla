------------------------------- MODULE Helpers -------------------------------
(***************************************************************************)
(* C18: mathematical definitions of the std combinational helpers, written *)
(* from their docstrings (cohdl/std/_core_utility.pyi).  Vectors are bit   *)
(* sequences, index 1 = bit 0 (least significant / right-most).            *)
(***************************************************************************)
EXTENDS BitVec, FiniteSets

RECURSIVE SumSeq(_, _)
SumSeq(s, i) == IF i > Len(s) THEN 0 ELSE s[i] + SumSeq(s, i + 1)

\* "Returns the number of '1' bits in vector" / '0' bits
CountSetBits(v)   == Cardinality({i \in 1..Len(v) : v[i] = 1})
CountClearBits(v) == Cardinality({i \in 1..Len(v) : v[i] = 0})

\* "number of '0' Bits before the first '1' starting from the least significant Bit" (and the three siblings)
RECURSIVE RunFromLsb(_, _, _), RunFromMsb(_, _, _)
RunFromLsb(v, b, i) == IF i > Len(v) \/ v[i] # b THEN 0 ELSE 1 + RunFromLsb(v, b, i + 1)
RunFromMsb(v, b, i) == IF i < 1 \/ v[i] # b THEN 0 ELSE 1 + RunFromMsb(v, b, i - 1)
TrailingZeros(v) == RunFromLsb(v, 0, 1)
TrailingOnes(v)  == RunFromLsb(v, 1, 1)
LeadingZeros(v)  == RunFromMsb(v, 0, Len(v))
LeadingOnes(v)   == RunFromMsb(v, 1, Len(v))

OneHot(w, pos)  == [i \in 1..w |-> IF i - 1 = pos THEN 1 ELSE 0]
IsOneHot(v)     == CountSetBits(v) = 1
ReverseBits(v)  == [i \in 1..Len(v) |-> v[Len(v) + 1 - i]]
Parity(v)       == CountSetBits(v) % 2

\* "roll left n bits": rol("1001") = "0011"
Rol(v, n) == LET w == Len(v) IN [i \in 1..w |-> v[((i - 1 - n) % w) + 1]]
Ror(v, n) == LET w == Len(v) IN [i \in 1..w |-> v[((i - 1 + n) % w) + 1]]

\* "Concatenate val and fill and drop msbs ... lshift_fill(abcdef, XYZ) == defXYZ"
LshiftFill(val, fill) == Low(Concat(val, fill), Len(val))
\* "Concatenate fill and val and drop lsbs ... rshift_fill(abcdef, XYZ) == XYZabc"
RshiftFill(val, fill) == LET c == Concat(fill, val) IN [i \in 1..Len(val) |-> c[i + Len(fill)]]

\* "repeat(BitVector[3]('110'), 2) -> '110110'",  "stretch(BitVector[2]('10'), 3) -> '111000'"
Repeat(v, times)   == [i \in 1..(Len(v) * times) |-> v[((i - 1) % Len(v)) + 1]]
Stretch(v, factor) == [i \in 1..(Len(v) * factor) |-> v[((i - 1) \div factor) + 1]]

\* "pad(vec, left=1, right=2) == '0XXXX00'": fill bits on the left (msb side) and right (lsb side)
Pad(v, left, right, fill) == [i \in 1..(Len(v) + left + right) |->
                                IF i <= right THEN fill ELSE IF i <= right + Len(v) THEN v[i - right] ELSE fill]
LeftPad(v, w, fill)  == Pad(v, w - Len(v), 0, fill)
RightPad(v, w, fill) == Pad(v, 0, w - Len(v), fill)

\* "result_bit = new_bit if mask_bit else old_bit"
ApplyMask(old, new, mask) == [i \in 1..Len(old) |-> IF mask[i] = 1 THEN new[i] ELSE old[i]]

\* "list of BitVectors starting with the least significant slice"
Batched(v, n) == [j \in 1..((Len(v) + n - 1) \div n) |->
                    [i \in 1..Min(n, Len(v) - (j - 1) * n) |-> v[(j - 1) * n + i]]]
\* "subvector of input using a onehot selector" (and/or network: the OR of all selected batches)
SelectBatch(v, sel, n) == [i \in 1..n |-> IF \E j \in 1..Len(sel) : sel[j] = 1 /\ v[(j - 1) * n + i] = 1 THEN 1 ELSE 0]

\* concat(first, *args) == first @ arg1 @ ...  (the first argument is most significant)
RECURSIVE ConcatAll(_, _)
ConcatAll(vs, i) == IF i > Len(vs) THEN << >> ELSE Concat(vs[i], ConcatAll(vs, i + 1))

\* ---- lists of numbers ("first extremum wins")
MinIndex(xs) == CHOOSE i \in 1..Len(xs) : (\A j \in 1..Len(xs) : xs[i] <= xs[j]) /\ (\A j \in 1..(i - 1) : xs[j] > xs[i])
MaxIndex(xs) == CHOOSE i \in 1..Len(xs) : (\A j \in 1..Len(xs) : xs[i] >= xs[j]) /\ (\A j \in 1..(i - 1) : xs[j] < xs[i])
Minimum(xs) == xs[MinIndex(xs)]
Maximum(xs) == xs[MaxIndex(xs)]
Count(xs, val) == Cardinality({i \in 1..Len(xs) : xs[i] = val})
\* "val if it is in the range [low, high], low if val is less than low, high if val is greater than high"
Clamp(val, low, high) == IF val < low THEN low ELSE IF val > high THEN high ELSE val
\* "index of the first element that does not compare equal to val ... length if no such element exists"
RECURSIVE CountWhile(_, _, _), CountUntil(_, _, _)
CountWhile(xs, val, i) == IF i > Len(xs) \/ xs[i] # val THEN 0 ELSE 1 + CountWhile(xs, val, i + 1)
CountUntil(xs, val, i) == IF i > Len(xs) \/ xs[i] = val THEN 0 ELSE 1 + CountUntil(xs, val, i + 1)

\* binary_fold / batched_fold "equal a sequential left fold for associative operators"
RECURSIVE FoldL(_, _, _, _)
FoldL(Op(_, _), xs, acc, i) == IF i > Len(xs) THEN acc ELSE FoldL(Op, xs, Op(acc, xs[i]), i + 1)

\* ---- CRC: bitwise polynomial division over GF(2), one data bit at a time.
\* state and polynomial are w-bit vectors (polynomial without its leading term), data bits are fed in order.
CrcStep(state, poly, bit) ==
  LET w == Len(state)
      fb == (state[w] + bit) % 2
      shifted == [i \in 1..w |-> IF i = 1 THEN 0 ELSE state[i - 1]]
  IN [i \in 1..w |-> IF fb = 1 THEN (shifted[i] + poly[i]) % 2 ELSE shifted[i]]
RECURSIVE CrcFeed(_, _, _, _)
CrcFeed(state, poly, bits, i) == IF i > Len(bits) THEN state ELSE CrcFeed(CrcStep(state, poly, bits[i]), poly, bits, i + 1)
=============================================================================
