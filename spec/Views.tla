-------------------------------- MODULE Views --------------------------------
(***************************************************************************)
(* C13 (second half): "Views of an object (.unsigned/.signed/.bitvector,   *)
(* slices, indices) alias the same storage and keep the same root and      *)
(* qualifier."                                                             *)
(*                                                                         *)
(* One root object of W bits.  A view is a window [lo..hi] of the root     *)
(* with a kind; it owns no storage: its value is always the window of the  *)
(* root, and a write through it changes exactly those root bits.           *)
(***************************************************************************)
EXTENDS Naturals, Sequences, FiniteSets, TLC

CONSTANTS W, MaxViews, MaxSteps, RootKind

Pow(n) == 2 ^ n
BitOf(n, i) == (n \div Pow(i)) % 2
\* value of the window [lo..hi] of the integer pattern n
Window(n, lo, hi) == (n \div Pow(lo)) % Pow(hi - lo + 1)
\* n with its window [lo..hi] replaced by p
SetWindow(n, lo, hi, p) == n - Window(n, lo, hi) * Pow(lo) + (p % Pow(hi - lo + 1)) * Pow(lo)

VARIABLES root, views, hist
vars == <<root, views, hist>>

RootView == [lo |-> 0, hi |-> W - 1, kind |-> RootKind]
All == <<RootView>> \o views          \* index 1 = the root itself

ValueOf(v) == Window(root, v.lo, v.hi)
Snapshot(r, vs) == [i \in 1..Len(vs) |-> Window(r, vs[i].lo, vs[i].hi)]

Init == root = 0 /\ views = << >> /\ hist = << >>

\* create a view of an existing view
Cast(i, kind) ==
  LET v == All[i] IN
  /\ v.kind # "bit" /\ Len(views) < MaxViews
  /\ views' = Append(views, [lo |-> v.lo, hi |-> v.hi, kind |-> kind])
  /\ UNCHANGED root
  /\ hist' = Append(hist, [op |-> "cast", on |-> i, kind |-> kind, a |-> 0, b |-> 0, root |-> root,
                            vals |-> Snapshot(root, <<RootView>> \o views')])
Slice(i, h, l) ==
  LET v == All[i] IN
  /\ v.kind # "bit" /\ Len(views) < MaxViews /\ l <= h /\ v.lo + h <= v.hi
  /\ views' = Append(views, [lo |-> v.lo + l, hi |-> v.lo + h, kind |-> "bv"])
  /\ UNCHANGED root
  /\ hist' = Append(hist, [op |-> "slice", on |-> i, kind |-> "bv", a |-> h, b |-> l, root |-> root,
                            vals |-> Snapshot(root, <<RootView>> \o views')])
Index(i, k) ==
  LET v == All[i] IN
  /\ v.kind # "bit" /\ Len(views) < MaxViews /\ v.lo + k <= v.hi
  /\ views' = Append(views, [lo |-> v.lo + k, hi |-> v.lo + k, kind |-> "bit"])
  /\ UNCHANGED root
  /\ hist' = Append(hist, [op |-> "index", on |-> i, kind |-> "bit", a |-> k, b |-> 0, root |-> root,
                            vals |-> Snapshot(root, <<RootView>> \o views')])
\* write the pattern p through view i (i = 1 writes the root)
Write(i, p) ==
  LET v == All[i] IN
  /\ p < Pow(v.hi - v.lo + 1)
  /\ root' = SetWindow(root, v.lo, v.hi, p)
  /\ UNCHANGED views
  /\ hist' = Append(hist, [op |-> "write", on |-> i, kind |-> v.kind, a |-> p, b |-> 0, root |-> root',
                            vals |-> Snapshot(root', All)])

Next ==
  /\ Len(hist) < MaxSteps
  /\ \E i \in 1..Len(All) :
        \/ \E k \in {"u", "s", "bv"} : Cast(i, k)
        \/ \E h, l \in 0..(W - 1) : Slice(i, h, l)
        \/ \E k \in 0..(W - 1) : Index(i, k)
        \/ \E p \in {0, 5, 10, 15, 1, 2, 3} : Write(i, p)

Spec == Init /\ [][Next]_vars

\* design-level: a write through a view changes exactly its window
WriteIsLocal ==
  [][\A i \in 1..Len(All) : \A b \in 0..(W - 1) :
        (root' # root /\ hist' # hist /\ hist'[Len(hist')].op = "write" /\ hist'[Len(hist')].on = i
           /\ (b < All[i].lo \/ b > All[i].hi)) => BitOf(root', b) = BitOf(root, b)]_vars
=============================================================================
