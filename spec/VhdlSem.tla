------------------------------ MODULE VhdlSem ------------------------------
(***************************************************************************)
(* Dynamic semantics (simulation kernel) of the VHDL-93 subset that CoHDL  *)
(* emits, as a deep embedding: the design is the JSON AST produced by      *)
(* harness/vhdl_reader.py (pure syntax) and every judgement about its      *)
(* meaning is made here.                                                   *)
(*                                                                         *)
(*  Elab(D, top)      elaboration: flatten the instance hierarchy          *)
(*  InitState(F)      LRM initialisation phase                             *)
(*  Drive / Settle    signal update + delta cycles until quiescence        *)
(*  Cycle(F, s, in, clk)  one full clock period with data inputs `in`      *)
(*                                                                         *)
(* Deliberate deviations from the LRM, each named:                         *)
(*  - one unknown (2) stands for all metavalues;                           *)
(*  - a port association is modelled as an implicit concurrent assignment  *)
(*    (adds delta cycles, invisible at the granularity of Settle);         *)
(*  - checking view: process variables listed in F.procs[p].poison are     *)
(*    reset to the error value "uninit" when the process is activated, so  *)
(*    a read-before-write of a compiler intermediate surfaces as an error. *)
(***************************************************************************)
EXTENDS NumericStd, TLC, FiniteSets

None == [k |-> "none"]
IsNone(x) == x.k = "none"

SeqToSet(s) == {s[i] : i \in 1..Len(s)}

RECURSIVE FoldSeq(_, _, _, _)
\* FoldSeq(Op, acc, s, i): left fold from index i
FoldSeq(Op(_, _), acc, s, i) == IF i > Len(s) THEN acc ELSE FoldSeq(Op, Op(acc, s[i]), s, i + 1)

(* ------------------------------------------------------------------ *)
(* Types and default initial values                                   *)
(* ------------------------------------------------------------------ *)
\* scope record of one architecture:
\*   enums  : [literal -> [ty, pos]]      types : [type name -> declaration node]
\*   funcs  : [name -> function node]     signames : set of local signal names (ports + signals)

RECURSIVE ConstInt(_)
ConstInt(e) == \* locally static integer expressions used in ranges
  CASE e.k = "int" -> e.v
    [] e.k = "paren" -> ConstInt(e.e)
    [] e.k = "un" /\ e.op = "-" -> -ConstInt(e.e)
    [] e.k = "bin" /\ e.op = "+" -> ConstInt(e.l) + ConstInt(e.r)
    [] e.k = "bin" /\ e.op = "-" -> ConstInt(e.l) - ConstInt(e.r)
    [] e.k = "bin" /\ e.op = "*" -> ConstInt(e.l) * ConstInt(e.r)
    [] OTHER -> -999999

HasField(r, f) == f \in DOMAIN r

\* width of a constrained vector subtype indication; CoHDL emits (n-1 downto 0)
RangeWidth(ty) ==
  IF ~HasField(ty, "range") THEN -1
  ELSE LET l == ConstInt(ty.range.l) r == ConstInt(ty.range.r)
       IN IF ty.range.d = "downto" /\ r = 0 THEN l + 1
          ELSE IF ty.range.d = "to" /\ l = 0 THEN -2          \* ascending vector: not modelled
          ELSE -2

RECURSIVE DefaultOf(_, _)
DefaultOf(ty, sc) ==
  LET n == ty.n IN
  CASE n = "std_logic" -> VSl(2)
    [] n = "std_ulogic" -> VSl(2)
    [] n \in {"std_logic_vector", "unsigned", "signed"} ->
         LET w == RangeWidth(ty)
             k == IF n = "unsigned" THEN "u" ELSE IF n = "signed" THEN "s" ELSE "slv"
         IN IF w = -1 THEN VErr("type:unconstrained " \o n)
            ELSE IF w = -2 THEN VErr("unmodelled:vector range other than (n downto 0)")
            ELSE V(k, AllU(w))
    [] n = "boolean" -> V("bool", 0)
    [] n \in {"integer", "natural", "positive"} ->
         IF HasField(ty, "irange") THEN VInt(ConstInt(ty.irange.l))
         ELSE IF n = "natural" THEN VInt(0) ELSE IF n = "positive" THEN VInt(1)
         ELSE VInt(0)   \* deviation: integer'left is -2^31; CoHDL always initialises integers
    [] n \in DOMAIN sc.types ->
         LET td == sc.types[n] IN
         IF td.k = "enum" THEN V("enum", 1)
         ELSE IF td.k = "arrtype" THEN
              LET lo == ConstInt(td.l) hi == ConstInt(td.r) IN
              IF td.d # "to" \/ lo # 0 THEN VErr("unmodelled:array index range other than (0 to n)")
              ELSE V("arr", [i \in 1..(hi + 1) |-> DefaultOf(td.el, sc)])
         ELSE VErr("type:not a type " \o n)
    [] OTHER -> VErr("type:unknown type " \o n)

(* ------------------------------------------------------------------ *)
(* Coercion of a value to the shape of a target (assignment check)    *)
(* ------------------------------------------------------------------ *)
RECURSIVE Coerce(_, _)
\* `like` is the current value of the target (it carries kind and width)
Coerce(val, like) ==
  IF IsErr(val) THEN val
  ELSE IF IsErr(like) THEN like
  ELSE IF like.t \in {"slv", "u", "s"} THEN
       IF val.t = like.t \/ val.t = "str" THEN
            IF Len(val.v) = Len(like.v) THEN V(like.t, val.v)
            ELSE VErr("rt:length mismatch in assignment")
       ELSE VErr("type:assignment of " \o val.t \o " to " \o like.t)
  ELSE IF like.t = "arr" THEN
       IF val.t = "arr" THEN
            IF Len(val.v) # Len(like.v) THEN VErr("rt:array length mismatch")
            ELSE LET cs == [i \in 1..Len(like.v) |-> Coerce(val.v[i], like.v[i])]
                     bad == {i \in 1..Len(cs) : IsErr(cs[i])}
                 IN IF bad = {} THEN V("arr", cs) ELSE cs[CHOOSE i \in bad : TRUE]
       ELSE IF val.t = "agg" THEN
            LET n == Len(like.v)
                pick(i) == LET m == {j \in 1..Len(val.v.items) : val.v.items[j].i = i - 1} IN
                           IF m # {} THEN val.v.items[CHOOSE j \in m : TRUE].x
                           ELSE IF IsNone(val.v.others) THEN VErr("type:aggregate misses an element") ELSE val.v.others
                cs == [i \in 1..n |-> Coerce(pick(i), like.v[i])]
                bad == {i \in 1..n : IsErr(cs[i])}
                dup == \E j1, j2 \in 1..Len(val.v.items) : j1 # j2 /\ val.v.items[j1].i = val.v.items[j2].i
                oob == \E j \in 1..Len(val.v.items) : val.v.items[j].i < 0 \/ val.v.items[j].i >= n
            IN IF dup THEN VErr("type:duplicate choice in aggregate")
               ELSE IF oob THEN VErr("rt:aggregate choice out of range")
               ELSE IF bad = {} THEN V("arr", cs) ELSE cs[CHOOSE i \in bad : TRUE]
       ELSE VErr("type:assignment of " \o val.t \o " to array")
  ELSE IF val.t = like.t THEN val
  ELSE VErr("type:assignment of " \o val.t \o " to " \o like.t)

(* ------------------------------------------------------------------ *)
(* Expression evaluation                                              *)
(* env = [sig, prev, changed, pfx, sc]   var = process variables      *)
(* ------------------------------------------------------------------ *)
FnNames == {"resize", "to_unsigned", "to_signed", "to_integer", "unsigned", "signed",
            "std_logic_vector", "shift_left", "shift_right", "rising_edge", "falling_edge"}

\* env.cls : [name occurring in the unit -> "var" | "sig" | "enum" | "other"], computed at elaboration;
\* env.gn  : [local signal name -> global (flattened) signal name]
ClassOf(n, env) == env.cls[n]
IsObject(n, var, env) == ClassOf(n, env) \in {"var", "sig"}

RECURSIVE Eval(_, _, _), EvalArgs(_, _, _), CallFn(_, _, _), ExecFn(_, _, _, _)
RECURSIVE StmtsNames(_, _)

Lookup(n, var, env) ==
  LET c == ClassOf(n, env) IN
  IF c = "var" THEN var[n]
  ELSE IF c = "sig" THEN env.sig[env.gn[n]]
  ELSE IF c = "enum" THEN V("enum", env.sc.enums[n].pos)
  ELSE VErr("type:name not declared: " \o n)

IndexInto(base, idx) ==
  IF IsErr(base) THEN base ELSE IF IsErr(idx) THEN idx
  ELSE IF idx.t # "int" THEN VErr("type:index must be integer")
  ELSE IF IsVec(base) THEN
       IF idx.v < 0 \/ idx.v >= Len(base.v) THEN VErr("rt:index out of range") ELSE VSl(base.v[idx.v + 1])
  ELSE IF base.t = "arr" THEN
       IF idx.v < 0 \/ idx.v >= Len(base.v) THEN VErr("rt:index out of range") ELSE base.v[idx.v + 1]
  ELSE VErr("type:indexing a non-array " \o base.t)

SliceOf(base, d, l, r) ==
  IF IsErr(base) THEN base ELSE IF IsErr(l) THEN l ELSE IF IsErr(r) THEN r
  ELSE IF l.t # "int" \/ r.t # "int" THEN VErr("type:slice bounds must be integer")
  ELSE IF ~IsVec(base) THEN VErr("type:slice of " \o base.t)
  ELSE IF d # "downto" THEN VErr("type:slice direction differs from the object's (downto)")
  ELSE IF l.v < r.v THEN V(base.t, << >>)
  ELSE IF r.v < 0 \/ l.v >= Len(base.v) THEN VErr("rt:slice out of range")
  ELSE V(base.t, Slice(base.v, l.v, r.v))

Eval(e, var, env) ==
  CASE e.k = "int" -> VInt(e.v)
    [] e.k = "char" -> VSl(e.v)
    [] e.k = "str" -> V("str", e.b)
    [] e.k = "boollit" -> V("bool", e.v)
    [] e.k = "paren" -> Eval(e.e, var, env)
    [] e.k = "name" -> Lookup(e.n, var, env)
    [] e.k = "qual" ->
         LET a == Eval(e.e, var, env) IN
         IF IsErr(a) THEN a
         ELSE IF e.t = "unsigned" THEN Qualify("u", a)
         ELSE IF e.t = "signed" THEN Qualify("s", a)
         ELSE IF e.t = "std_logic_vector" THEN Qualify("slv", a)
         ELSE IF e.t = "std_logic" /\ a.t = "sl" THEN a
         ELSE VErr("unmodelled:qualified expression of type " \o e.t)
    [] e.k = "slice" -> SliceOf(Eval(e.p, var, env), e.d, Eval(e.l, var, env), Eval(e.r, var, env))
    [] e.k = "app" ->
         IF e.f.k = "name" /\ ~IsObject(e.f.n, var, env) THEN CallFn(e, var, env)
         ELSE IF Len(e.a) # 1 THEN VErr("type:multi-dimensional index")
         ELSE IndexInto(Eval(e.f, var, env), Eval(e.a[1], var, env))
    [] e.k = "un" -> LET a == Eval(e.e, var, env) IN IF IsErr(a) THEN a ELSE Unary(e.op, a)
    [] e.k = "bin" ->
         LET a == Eval(e.l, var, env) b == Eval(e.r, var, env) IN
         IF IsErr(a) THEN a ELSE IF IsErr(b) THEN b
         ELSE IF e.op \in {"+", "-", "*", "/", "mod", "rem"} THEN Arith(e.op, a, b)
         ELSE IF e.op \in {"and", "or", "xor", "nand", "nor", "xnor"} THEN Logical(e.op, a, b)
         ELSE IF e.op \in {"=", "/=", "<", "<=", ">", ">="} THEN Relational(e.op, a, b)
         ELSE IF e.op = "&" THEN ConcatV(a, b)
         ELSE VErr("unmodelled:operator " \o e.op)
    [] e.k = "agg" ->
         LET its == [j \in 1..Len(e.items) |->
                       IF e.items[j].c.k = "others" THEN [i |-> -1, x |-> Eval(e.items[j].e, var, env)]
                       ELSE [i |-> ConstInt(e.items[j].c), x |-> Eval(e.items[j].e, var, env)]]
             oth == {j \in 1..Len(its) : e.items[j].c.k = "others"}
             named == SelectSeq(its, LAMBDA it : it.i # -1)
         IN IF \E j \in 1..Len(its) : e.items[j].c.k # "others" /\ its[j].i = -999999
              THEN VErr("unmodelled:aggregate choice is not a static integer")
            ELSE V("agg", [items |-> named,
                           others |-> IF oth = {} THEN None ELSE its[CHOOSE j \in oth : TRUE].x])
    [] OTHER -> VErr("unmodelled:expression kind " \o e.k)

EvalArgs(args, var, env) == [i \in 1..Len(args) |-> Eval(args[i], var, env)]

EdgeOf(e, rising, env) ==
  IF e.k # "name" THEN VErr("unmodelled:edge function on a non-name")
  ELSE IF ClassOf(e.n, env) # "sig" THEN VErr("type:edge function needs a signal")
  ELSE LET g == env.gn[e.n] IN
       IF env.sig[g].t # "sl" THEN VErr("type:edge function on " \o env.sig[g].t)
       ELSE VBool(g \in env.changed
                  /\ env.sig[g].v = (IF rising THEN 1 ELSE 0)
                  /\ env.prev[g].v = (IF rising THEN 0 ELSE 1))

CallFn(e, var, env) ==
  LET f == e.f.n
      n == Len(e.a)
  IN
  IF f = "rising_edge" THEN (IF n = 1 THEN EdgeOf(e.a[1], TRUE, env) ELSE VErr("type:arity of rising_edge"))
  ELSE IF f = "falling_edge" THEN (IF n = 1 THEN EdgeOf(e.a[1], FALSE, env) ELSE VErr("type:arity of falling_edge"))
  ELSE
  LET a == EvalArgs(e.a, var, env)
      bad == {i \in 1..n : IsErr(a[i])}
  IN
  IF bad # {} THEN a[CHOOSE i \in bad : \A j \in bad : i <= j]
  ELSE IF f \in DOMAIN env.sc.funcs THEN ExecFn(env.sc.funcs[f], a, var, env)
  ELSE IF f = "resize" THEN (IF n = 2 THEN Resize(a[1], a[2]) ELSE VErr("type:arity of resize"))
  ELSE IF f = "to_unsigned" THEN (IF n = 2 THEN ToUnsigned(a[1], a[2]) ELSE VErr("type:arity of to_unsigned"))
  ELSE IF f = "to_signed" THEN (IF n = 2 THEN ToSigned(a[1], a[2]) ELSE VErr("type:arity of to_signed"))
  ELSE IF f = "to_integer" THEN (IF n = 1 THEN ToInteger(a[1]) ELSE VErr("type:arity of to_integer"))
  ELSE IF f = "unsigned" THEN (IF n = 1 THEN Conv("u", a[1]) ELSE VErr("type:arity of conversion"))
  ELSE IF f = "signed" THEN (IF n = 1 THEN Conv("s", a[1]) ELSE VErr("type:arity of conversion"))
  ELSE IF f = "std_logic_vector" THEN (IF n = 1 THEN Conv("slv", a[1]) ELSE VErr("type:arity of conversion"))
  ELSE IF f = "shift_left" THEN (IF n = 2 THEN ShiftFn(TRUE, a[1], a[2]) ELSE VErr("type:arity of shift_left"))
  ELSE IF f = "shift_right" THEN (IF n = 2 THEN ShiftFn(FALSE, a[1], a[2]) ELSE VErr("type:arity of shift_right"))
  ELSE VErr("type:function not declared: " \o f)

(* ------------------------------------------------------------------ *)
(* Sequential statements                                              *)
(* st = [var, wr, err, fired, ret]                                    *)
(*   wr    sequence of pending signal writes [n, path, v]             *)
(*   fired set of messages of assertions whose condition was false    *)
(* ------------------------------------------------------------------ *)
NoRet == [t |-> "noret", v |-> 0]

RECURSIVE TargetOf(_, _, _)
\* -> [root, local, path, err]; path elements [k |-> "idx", i] / [k |-> "slice", h, l]
TargetOf(t, var, env) ==
  CASE t.k = "name" -> [root |-> t.n, path |-> << >>, err |-> ""]
    [] t.k = "app" ->
         LET base == TargetOf(t.f, var, env)
             i == IF Len(t.a) = 1 THEN Eval(t.a[1], var, env) ELSE VErr("type:multi-dimensional index")
         IN IF base.err # "" THEN base
            ELSE IF IsErr(i) THEN [base EXCEPT !.err = i.v]
            ELSE IF i.t # "int" THEN [base EXCEPT !.err = "type:index must be integer"]
            ELSE [base EXCEPT !.path = Append(@, [k |-> "idx", h |-> i.v, l |-> i.v])]
    [] t.k = "slice" ->
         LET base == TargetOf(t.p, var, env)
             h == Eval(t.l, var, env) l == Eval(t.r, var, env)
         IN IF base.err # "" THEN base
            ELSE IF IsErr(h) THEN [base EXCEPT !.err = h.v]
            ELSE IF IsErr(l) THEN [base EXCEPT !.err = l.v]
            ELSE IF h.t # "int" \/ l.t # "int" THEN [base EXCEPT !.err = "type:slice bounds must be integer"]
            ELSE IF t.d # "downto" THEN [base EXCEPT !.err = "type:slice direction differs from the object's (downto)"]
            ELSE [base EXCEPT !.path = Append(@, [k |-> "slice", h |-> h.v, l |-> l.v])]
    [] OTHER -> [root |-> "", path |-> << >>, err |-> "type:illegal assignment target"]

RECURSIVE UpdatePath(_, _, _, _)
\* new value of `old` after assigning `val` at `path` (from element i)
UpdatePath(old, path, i, val) ==
  IF IsErr(old) THEN old
  ELSE IF i > Len(path) THEN Coerce(val, old)
  ELSE LET p == path[i] IN
       IF p.k = "idx" THEN
            IF old.t = "arr" THEN
                 IF p.h < 0 \/ p.h >= Len(old.v) THEN VErr("rt:index out of range")
                 ELSE LET sub == UpdatePath(old.v[p.h + 1], path, i + 1, val) IN
                      IF IsErr(sub) THEN sub ELSE V("arr", [old.v EXCEPT ![p.h + 1] = sub])
            ELSE IF IsVec(old) THEN
                 IF i # Len(path) THEN VErr("type:indexing a std_logic")
                 ELSE IF p.h < 0 \/ p.h >= Len(old.v) THEN VErr("rt:index out of range")
                 ELSE IF IsErr(val) THEN val
                 ELSE IF val.t # "sl" THEN VErr("type:assignment of " \o val.t \o " to std_logic")
                 ELSE V(old.t, [old.v EXCEPT ![p.h + 1] = val.v])
            ELSE VErr("type:indexing a non-array " \o old.t)
       ELSE \* slice
            IF ~IsVec(old) THEN VErr("type:slice of " \o old.t)
            ELSE IF i # Len(path) THEN VErr("unmodelled:path below a slice")
            ELSE IF p.h < p.l THEN (IF IsVecOrStr(val) /\ Len(val.v) = 0 THEN old ELSE VErr("rt:length mismatch in assignment"))
            ELSE IF p.l < 0 \/ p.h >= Len(old.v) THEN VErr("rt:slice out of range")
            ELSE LET c == Coerce(val, V(old.t, Slice(old.v, p.h, p.l))) IN
                 IF IsErr(c) THEN c ELSE V(old.t, SetSlice(old.v, p.h, p.l, c.v))

RECURSIVE Exec(_, _, _, _)
ExecStmt(s, st, env) ==
  CASE s.k = "null" -> st
    [] s.k = "vassign" ->
         LET tg == TargetOf(s.t, st.var, env)
             val == Eval(s.e, st.var, env)
         IN IF tg.err # "" THEN [st EXCEPT !.err = tg.err]
            ELSE IF ClassOf(tg.root, env) # "var" THEN [st EXCEPT !.err = "type:variable assignment to a non-variable " \o tg.root]
            ELSE IF IsErr(val) THEN [st EXCEPT !.err = val.v]
            ELSE LET old == st.var[tg.root]
                     \* a poisoned (uninit) variable keeps its declared shape in st.shape
                     base == IF IsErr(old) THEN env.shape[tg.root] ELSE old
                     new == UpdatePath(base, tg.path, 1, val)
                 IN IF IsErr(new) THEN [st EXCEPT !.err = new.v]
                    ELSE IF IsErr(old) /\ tg.path # << >> THEN [st EXCEPT !.err = "uninit"]   \* partial write to a poisoned intermediate
                    ELSE [st EXCEPT !.var[tg.root] = new]
    [] s.k = "sassign" ->
         LET tg == TargetOf(s.t, st.var, env)
             val == Eval(s.e, st.var, env)
             c == ClassOf(tg.root, env)
         IN IF tg.err # "" THEN [st EXCEPT !.err = tg.err]
            ELSE IF c = "var" THEN [st EXCEPT !.err = "type:signal assignment to a variable " \o tg.root]
            ELSE IF c # "sig" THEN [st EXCEPT !.err = "type:name not declared: " \o tg.root]
            ELSE IF IsErr(val) THEN [st EXCEPT !.err = val.v]
            ELSE \* type/length check against the current value now; the write is applied after the delta
                 LET g == env.gn[tg.root]
                     chk == UpdatePath(env.sig[g], tg.path, 1, val) IN
                 IF IsErr(chk) THEN [st EXCEPT !.err = chk.v]
                 ELSE [st EXCEPT !.wr = Append(@, [n |-> g, path |-> tg.path, v |-> val])]
    [] s.k = "if" ->
         LET c == Eval(s.c, st.var, env) IN
         IF IsErr(c) THEN [st EXCEPT !.err = c.v]
         ELSE IF c.t # "bool" THEN [st EXCEPT !.err = "type:condition must be boolean"]
         ELSE IF c.v = 2 THEN [st EXCEPT !.err = "uninit"]
         ELSE IF c.v = 1 THEN Exec(s.th, 1, st, env) ELSE Exec(s.el, 1, st, env)
    [] s.k = "case" ->
         LET sel == Eval(s.e, st.var, env) IN
         IF IsErr(sel) THEN [st EXCEPT !.err = sel.v]
         ELSE
         LET matches(arm) == \E j \in 1..Len(arm.ch) :
                               arm.ch[j].k = "others" \/
                               LET cv == Eval(arm.ch[j], st.var, env) IN
                                 ~IsErr(cv) /\ LET r == Relational("=", sel, cv) IN ~IsErr(r) /\ r.v = 1
             hits == {a \in 1..Len(s.arms) : matches(s.arms[a])}
         IN IF hits = {} THEN [st EXCEPT !.err = "rt:no case alternative selected"]
            ELSE Exec(s.arms[CHOOSE a \in hits : \A b \in hits : a <= b].b, 1, st, env)
    [] s.k = "assert" ->
         LET c == Eval(s.c, st.var, env) IN
         IF IsErr(c) THEN [st EXCEPT !.err = c.v]
         ELSE IF c.t # "bool" THEN [st EXCEPT !.err = "type:condition must be boolean"]
         ELSE IF c.v = 2 THEN [st EXCEPT !.err = "uninit"]
         ELSE IF c.v = 0 THEN [st EXCEPT !.fired = @ \cup {s.m}] ELSE st
    [] s.k = "return" ->
         IF IsNone(s.e) THEN [st EXCEPT !.err = "type:return without value"]
         ELSE LET v == Eval(s.e, st.var, env) IN
              IF IsErr(v) THEN [st EXCEPT !.err = v.v] ELSE [st EXCEPT !.ret = v]
    [] OTHER -> [st EXCEPT !.err = "unmodelled:statement kind " \o s.k]

Exec(stmts, i, st, env) ==
  IF i > Len(stmts) \/ st.err # "" \/ st.ret.t # "noret" THEN st
  ELSE Exec(stmts, i + 1, ExecStmt(stmts[i], st, env), env)

\* user-declared function: parameters are constants bound positionally
ExecFn(fn, args, var, env) ==
  IF Len(args) # Len(fn.params) THEN VErr("type:arity of " \o fn.n)
  ELSE LET pv == [nm \in {fn.params[i].n : i \in 1..Len(fn.params)} |->
                     args[CHOOSE i \in 1..Len(fn.params) : fn.params[i].n = nm]]
           tyOK == \A i \in 1..Len(fn.params) :
                     LET d == DefaultOf(fn.params[i].ty, env.sc) IN ~IsErr(d) /\ d.t = args[i].t
           st0 == [var |-> pv, wr |-> << >>, err |-> "", fired |-> {}, ret |-> NoRet]
           \* inside a function only its parameters, enumeration literals and functions are visible
           names == StmtsNames(fn.body, 1)
           fcls == [nm \in names |-> IF nm \in DOMAIN pv THEN "var"
                                      ELSE IF nm \in DOMAIN env.sc.enums THEN "enum" ELSE "other"]
           r == Exec(fn.body, 1, st0, [env EXCEPT !.shape = pv, !.cls = fcls])
       IN IF ~tyOK THEN VErr("type:argument type of " \o fn.n)
          ELSE IF r.err # "" THEN VErr(r.err)
          ELSE IF r.ret.t = "noret" THEN VErr("rt:function " \o fn.n \o " ended without return")
          ELSE LET d == DefaultOf(fn.ret, env.sc) IN
               IF ~IsErr(d) /\ d.t # r.ret.t THEN VErr("type:return type of " \o fn.n) ELSE r.ret

(* ------------------------------------------------------------------ *)
(* Static walk used by the type check: every statement of every       *)
(* branch is evaluated once (values are irrelevant, typing is dynamic) *)
(* ------------------------------------------------------------------ *)
RECURSIVE Names(_), NamesSeq(_, _)
Names(e) ==
  CASE e.k = "name" -> {e.n}
    [] e.k \in {"paren", "un", "qual"} -> Names(e.e)
    [] e.k = "bin" -> Names(e.l) \cup Names(e.r)
    [] e.k = "slice" -> Names(e.p) \cup Names(e.l) \cup Names(e.r)
    [] e.k = "app" -> Names(e.f) \cup NamesSeq(e.a, 1)
    [] e.k = "agg" -> UNION {Names(e.items[j].e) : j \in 1..Len(e.items)}
    [] OTHER -> {}
NamesSeq(s, i) == IF i > Len(s) THEN {} ELSE Names(s[i]) \cup NamesSeq(s, i + 1)

RECURSIVE StmtReads(_), StmtsReads(_, _), TargetIndexNames(_)
TargetIndexNames(t) ==
  CASE t.k = "name" -> {}
    [] t.k = "app" -> TargetIndexNames(t.f) \cup NamesSeq(t.a, 1)
    [] t.k = "slice" -> TargetIndexNames(t.p) \cup Names(t.l) \cup Names(t.r)
    [] OTHER -> {}
StmtReads(s) ==
  CASE s.k \in {"vassign", "sassign"} -> Names(s.e) \cup TargetIndexNames(s.t)
    [] s.k = "if" -> Names(s.c) \cup StmtsReads(s.th, 1) \cup StmtsReads(s.el, 1)
    [] s.k = "case" -> Names(s.e) \cup UNION {StmtsReads(s.arms[a].b, 1) : a \in 1..Len(s.arms)}
    [] s.k = "assert" -> Names(s.c)
    [] s.k = "return" -> IF IsNone(s.e) THEN {} ELSE Names(s.e)
    [] OTHER -> {}
StmtsReads(ss, i) == IF i > Len(ss) THEN {} ELSE StmtReads(ss[i]) \cup StmtsReads(ss, i + 1)

\* every name occurring in a statement list (reads, assignment targets, function names)
RECURSIVE StmtNames(_)
StmtNames(s) ==
  CASE s.k \in {"vassign", "sassign"} -> Names(s.e) \cup Names(s.t)
    [] s.k = "if" -> Names(s.c) \cup StmtsNames(s.th, 1) \cup StmtsNames(s.el, 1)
    [] s.k = "case" -> Names(s.e) \cup UNION {StmtsNames(s.arms[a].b, 1) \cup NamesSeq(SelectSeq(s.arms[a].ch, LAMBDA c : c.k # "others"), 1) : a \in 1..Len(s.arms)}
    [] s.k = "assert" -> Names(s.c)
    [] s.k = "return" -> IF IsNone(s.e) THEN {} ELSE Names(s.e)
    [] OTHER -> {}
StmtsNames(ss, i) == IF i > Len(ss) THEN {} ELSE StmtNames(ss[i]) \cup StmtsNames(ss, i + 1)

(* ------------------------------------------------------------------ *)
(* Elaboration                                                        *)
(* ------------------------------------------------------------------ *)
UnitsOf(D, kind, pred(_)) == SelectSeq(D.units, LAMBDA u : u.k = kind /\ pred(u))

EmptyFn == [x \in {} |-> 0]

\* enumeration literals and type names declared in a declarative part
TypeScope(ds) ==
  LET enumDecls == SelectSeq(ds, LAMBDA d : d.k = "enum")
      lits == UNION {{<<enumDecls[i].lits[j], enumDecls[i].n, j>> : j \in 1..Len(enumDecls[i].lits)} : i \in 1..Len(enumDecls)}
      litNames == {x[1] : x \in lits}
      tyDecls == SelectSeq(ds, LAMBDA d : d.k \in {"enum", "arrtype"})
  IN [enums |-> [l \in litNames |-> LET x == CHOOSE y \in lits : y[1] = l IN [ty |-> x[2], pos |-> x[3]]],
      types |-> [n \in {tyDecls[i].n : i \in 1..Len(tyDecls)} |->
                    tyDecls[CHOOSE i \in 1..Len(tyDecls) : tyDecls[i].n = n /\ \A j \in 1..Len(tyDecls) : tyDecls[j].n = n => i <= j]]]

ScopeOf(ent, arch) ==
  LET ds == arch.decls
      ts == TypeScope(ds)
      fnDecls == SelectSeq(ds, LAMBDA d : d.k = "function")
  IN [enums |-> ts.enums,
      types |-> ts.types,
      funcs |-> [n \in {fnDecls[i].n : i \in 1..Len(fnDecls)} |-> fnDecls[CHOOSE i \in 1..Len(fnDecls) : fnDecls[i].n = n]],
      signames |-> {ent.ports[i].n : i \in 1..Len(ent.ports)}
                   \cup {ds[i].n : i \in {j \in 1..Len(ds) : ds[j].k = "signal"}}]

Classify(names, varnames, sc) ==
  [n \in names |-> IF n \in varnames THEN "var"
                   ELSE IF n \in sc.signames THEN "sig"
                   ELSE IF n \in DOMAIN sc.enums THEN "enum" ELSE "other"]

ConstEnv(sc, names) == [sig |-> EmptyFn, prev |-> EmptyFn, changed |-> {}, sc |-> sc, shape |-> EmptyFn,
                        gn |-> EmptyFn, cls |-> [n \in names |-> IF n \in DOMAIN sc.enums THEN "enum" ELSE "other"]]

InitOf(d, sc) == \* declared initial value or the type's default
  LET dflt == DefaultOf(d.ty, sc) IN
  IF ~HasField(d, "init") \/ IsNone(d.init) THEN dflt
  ELSE Coerce(Eval(d.init, EmptyFn, ConstEnv(sc, Names(d.init))), dflt)

\* a process-like unit of the flattened design
\*  kind "process": body, vars (initial), shape (declared shapes), poison (names reset at activation)
\*  kind "cassign"/"select"/"cassert"/"portin"/"portout"
MkProcess(s, pfx, sc0, gn, keep) ==
  LET \* types declared in the process declarative part (the type of a user variable) hide the architecture's
      ts == TypeScope(s.decls)
      sc == [sc0 EXCEPT !.enums = ts.enums @@ @, !.types = ts.types @@ @]
      vds == SelectSeq(s.decls, LAMBDA d : d.k = "variable")
      vnames == {vds[i].n : i \in 1..Len(vds)}
      dOf(n) == vds[CHOOSE i \in 1..Len(vds) : vds[i].n = n]
      reads == StmtsReads(s.body, 1)
      names == StmtsNames(s.body, 1)
      badDecl == \E i \in 1..Len(s.decls) : s.decls[i].k \notin {"variable", "enum", "arrtype"}
  IN [kind |-> "process", sc |-> sc, gn |-> gn, node |-> s, label |-> s.label, child |-> "",
      cls |-> Classify(names, vnames, sc),
      sens |-> IF s.sens.all = 1 THEN {gn[n] : n \in (reads \ vnames) \cap sc.signames}
               ELSE {IF s.sens.names[i].k = "name" /\ s.sens.names[i].n \in sc.signames THEN gn[s.sens.names[i].n] ELSE "?" : i \in 1..Len(s.sens.names)},
      vars |-> [n \in vnames |-> InitOf(dOf(n), sc)],
      shape |-> [n \in vnames |-> DefaultOf(dOf(n).ty, sc)],
      \* keep = names of user variables (never poisoned); "*" in keep switches the checking view off altogether
      poison |-> IF "*" \in keep THEN {} ELSE {n \in vnames : IsNone(dOf(n).init) /\ ~(n \in keep)},
      err |-> IF badDecl THEN "unmodelled:process declaration other than variable or type" ELSE ""]

MkConc(s, pfx, sc, gn) ==
  LET reads == IF s.k = "cassign" THEN Names(s.e) \cup TargetIndexNames(s.t)
               ELSE IF s.k = "select" THEN Names(s.sel) \cup TargetIndexNames(s.t)
                      \cup UNION {Names(s.arms[a].e) : a \in 1..Len(s.arms)}
               ELSE Names(s.c)
      names == IF s.k = "cassign" THEN Names(s.e) \cup Names(s.t)
               ELSE IF s.k = "select" THEN Names(s.sel) \cup Names(s.t)
                      \cup UNION {Names(s.arms[a].e) \cup NamesSeq(SelectSeq(s.arms[a].ch, LAMBDA c : c.k # "others"), 1) : a \in 1..Len(s.arms)}
               ELSE Names(s.c)
  IN [kind |-> s.k, sc |-> sc, gn |-> gn, node |-> s, label |-> "", child |-> "",
      cls |-> Classify(names, {}, sc),
      sens |-> {gn[n] : n \in reads \cap sc.signames},
      vars |-> EmptyFn, shape |-> EmptyFn, poison |-> {}, err |-> ""]

RECURSIVE ElabEntity(_, _, _, _, _)
\* -> [sigs : [global name -> initial value], procs : sequence, err : string]
ElabEntity(D, ename, pfx, depth, keep) ==
  LET ents == UnitsOf(D, "entity", LAMBDA u : u.n = ename)
      archs == UnitsOf(D, "arch", LAMBDA u : u.of = ename)
  IN
  IF depth > 8 THEN [sigs |-> EmptyFn, procs |-> << >>, err |-> "unmodelled:instance nesting deeper than 8"]
  ELSE IF Len(ents) # 1 \/ Len(archs) # 1 THEN [sigs |-> EmptyFn, procs |-> << >>, err |-> "type:entity/architecture not found exactly once: " \o ename]
  ELSE
  LET ent == ents[1] arch == archs[1]
      sc == ScopeOf(ent, arch)
      gn == [n \in sc.signames |-> pfx \o n]
      sds == SelectSeq(arch.decls, LAMBDA d : d.k = "signal")
      portSigs == [g \in {pfx \o ent.ports[i].n : i \in 1..Len(ent.ports)} |->
                     LET p == ent.ports[CHOOSE i \in 1..Len(ent.ports) : pfx \o ent.ports[i].n = g] IN InitOf(p, sc)]
      declSigs == [g \in {pfx \o sds[i].n : i \in 1..Len(sds)} |->
                     InitOf(sds[CHOOSE i \in 1..Len(sds) : pfx \o sds[i].n = g], sc)]
      own == FoldSeq(LAMBDA acc, s :
                       IF s.k = "process" THEN Append(acc, MkProcess(s, pfx, sc, gn, keep))
                       ELSE IF s.k \in {"cassign", "select", "cassert"} THEN Append(acc, MkConc(s, pfx, sc, gn))
                       ELSE acc, << >>, arch.stmts, 1)
      insts == SelectSeq(arch.stmts, LAMBDA s : s.k = "inst")
      sub(i) == LET s == insts[i]
                    cp == pfx \o s.label \o "."
                    child == ElabEntity(D, s.entity, cp, depth + 1, keep)
                    cents == UnitsOf(D, "entity", LAMBDA u : u.n = s.entity)
                    modeOf(f) == LET ps == cents[1].ports
                                     m == {j \in 1..Len(ps) : ps[j].n = f} IN
                                 IF m = {} THEN "missing" ELSE ps[CHOOSE j \in m : TRUE].mode
                    conn == [j \in 1..Len(s.pmap) |->
                               LET a == s.pmap[j]
                                   f == IF a.f.k = "name" THEN a.f.n ELSE "?"
                                   m == IF Len(cents) = 1 THEN modeOf(f) ELSE "missing"
                                   open == a.a.k = "open"
                               IN [kind |-> IF open THEN "portopen" ELSE IF m = "in" THEN "portin" ELSE IF m = "out" THEN "portout" ELSE "portbad",
                                   sc |-> sc, gn |-> gn, node |-> a, label |-> s.label, child |-> cp \o f,
                                   cls |-> IF open THEN EmptyFn ELSE Classify(Names(a.a), {}, sc),
                                   sens |-> IF open THEN {} ELSE IF m = "in" THEN {gn[n] : n \in Names(a.a) \cap sc.signames}
                                            ELSE {cp \o f},
                                   vars |-> EmptyFn, shape |-> EmptyFn, poison |-> {}, err |-> ""]]
                IN [sigs |-> child.sigs, procs |-> child.procs \o conn,
                    err |-> IF child.err # "" THEN child.err
                            ELSE IF s.lib # "work" THEN "unmodelled:instance from library " \o s.lib
                            ELSE IF Len(s.gmap) > 0 THEN "unmodelled:generic map"
                            ELSE IF \E j \in 1..Len(conn) : conn[j].kind = "portbad" THEN "unmodelled:inout/missing formal in port map"
                            ELSE ""]
      subs == [i \in 1..Len(insts) |-> sub(i)]
      subErrs == {i \in 1..Len(insts) : subs[i].err # ""}
      allSigs == FoldSeq(LAMBDA acc, x : x.sigs @@ acc, declSigs @@ portSigs, subs, 1)
      allProcs == FoldSeq(LAMBDA acc, x : acc \o x.procs, own, subs, 1)
      sigErr == {g \in DOMAIN allSigs : IsErr(allSigs[g])}
      procErr == {i \in 1..Len(own) : own[i].err # ""}
  IN [sigs |-> allSigs, procs |-> allProcs,
      err |-> IF subErrs # {} THEN subs[CHOOSE i \in subErrs : TRUE].err
              ELSE IF sigErr # {} THEN allSigs[CHOOSE g \in sigErr : TRUE].v
              ELSE IF procErr # {} THEN own[CHOOSE i \in procErr : TRUE].err
              ELSE IF \E i \in 1..Len(arch.decls) : arch.decls[i].k = "constant" THEN "unmodelled:constant declaration"
              ELSE IF Len(ent.generics) > 0 /\ depth = 0 THEN "unmodelled:generics on the top entity"
              ELSE ""]

\* F = flattened design: sigs, procs, err, wake, inputs (top-level in ports), outputs
Elab(D, top, keep) ==
  LET r == ElabEntity(D, top, "", 0, keep)
      ents == UnitsOf(D, "entity", LAMBDA u : u.n = top)
      ports == IF Len(ents) = 1 THEN ents[1].ports ELSE << >>
  IN [sigs |-> r.sigs, procs |-> r.procs, err |-> r.err,
      wake |-> [g \in DOMAIN r.sigs |-> {p \in 1..Len(r.procs) : g \in r.procs[p].sens}],
      inputs |-> {ports[i].n : i \in {j \in 1..Len(ports) : ports[j].mode = "in"}},
      outputs |-> {ports[i].n : i \in {j \in 1..Len(ports) : ports[j].mode \in {"out", "inout", "buffer"}}}]

(* ------------------------------------------------------------------ *)
(* Simulation kernel                                                  *)
(* state s = [sig, var, err, fired]; var : [process index -> var env] *)
(* ------------------------------------------------------------------ *)
RunProc(F, p, s, prev, changed) == \* -> [var, wr, err, fired]
  LET P == F.procs[p]
      env == [sig |-> s.sig, prev |-> prev, changed |-> changed, sc |-> P.sc, shape |-> P.shape,
              gn |-> P.gn, cls |-> P.cls]
      st0 == [var |-> EmptyFn, wr |-> << >>, err |-> "", fired |-> {}, ret |-> NoRet]
  IN
  CASE P.kind = "process" ->
         LET v0 == IF P.poison = {} THEN s.var[p]
                   ELSE [n \in DOMAIN s.var[p] |-> IF n \in P.poison THEN VErr("uninit") ELSE s.var[p][n]]
         IN Exec(P.node.body, 1, [st0 EXCEPT !.var = v0], env)
    [] P.kind = "cassign" -> ExecStmt([k |-> "sassign", t |-> P.node.t, e |-> P.node.e], st0, env)
    [] P.kind = "select" ->
         ExecStmt([k |-> "case", e |-> P.node.sel,
                   arms |-> [a \in 1..Len(P.node.arms) |->
                               [ch |-> P.node.arms[a].ch,
                                b |-> <<[k |-> "sassign", t |-> P.node.t, e |-> P.node.arms[a].e]>>]]], st0, env)
    [] P.kind = "cassert" -> ExecStmt([k |-> "assert", c |-> P.node.c, m |-> P.node.m], st0, env)
    [] P.kind = "portin" ->
         LET v == Eval(P.node.a, EmptyFn, env) IN
         IF IsErr(v) THEN [st0 EXCEPT !.err = v.v]
         ELSE LET c == Coerce(v, s.sig[P.child]) IN
              IF IsErr(c) THEN [st0 EXCEPT !.err = c.v]
              ELSE [st0 EXCEPT !.wr = <<[n |-> P.child, path |-> << >>, v |-> c]>>]
    [] P.kind = "portout" ->
         \* actual (a name, indexed name or slice of the parent) <= child's port signal
         LET tg == TargetOf(P.node.a, EmptyFn, env)
         IN IF tg.err # "" THEN [st0 EXCEPT !.err = tg.err]
            ELSE IF ClassOf(tg.root, env) # "sig" THEN [st0 EXCEPT !.err = "type:actual is not a signal: " \o tg.root]
            ELSE LET g == P.gn[tg.root]
                     chk == UpdatePath(s.sig[g], tg.path, 1, s.sig[P.child]) IN
                 IF IsErr(chk) THEN [st0 EXCEPT !.err = chk.v]
                 ELSE [st0 EXCEPT !.wr = <<[n |-> g, path |-> tg.path, v |-> s.sig[P.child]]>>]
    [] P.kind = "portopen" -> st0

RECURSIVE RunAll(_, _, _, _, _, _)
\* run the processes of `act` in index order (any order gives the same result: all read the same
\* current values and their writes are applied together);  acc = [var, wr, err, fired]
RunAll(F, act, p, s, env0, acc) ==
  IF p > Len(F.procs) \/ acc.err # "" THEN acc
  ELSE IF p \notin act THEN RunAll(F, act, p + 1, s, env0, acc)
  ELSE LET r == RunProc(F, p, s, env0.prev, env0.changed)
       IN RunAll(F, act, p + 1, s, env0,
                 [var |-> IF F.procs[p].kind = "process" /\ DOMAIN r.var # {} THEN [acc.var EXCEPT ![p] = r.var] ELSE acc.var,
                  wr |-> acc.wr \o r.wr,
                  err |-> r.err,
                  fired |-> acc.fired \cup r.fired])

RECURSIVE ApplyWrites(_, _, _)
ApplyWrites(sig, wr, i) ==
  IF i > Len(wr) THEN sig
  ELSE LET w == wr[i] IN ApplyWrites([sig EXCEPT ![w.n] = UpdatePath(@, w.path, 1, w.v)], wr, i + 1)

Wake(F, ch) == UNION {F.wake[g] : g \in ch}

RECURSIVE Settle(_, _, _, _, _, _)
\* run the processes in `act`, update signals, repeat with the processes sensitive to the events
Settle(F, s, prev, changed, act, n) ==
  IF act = {} \/ s.err # "" THEN s
  ELSE IF n > 64 THEN [s EXCEPT !.err = "rt:oscillation (no quiescence after 64 delta cycles)"]
  ELSE LET r == RunAll(F, act, 1, s, [prev |-> prev, changed |-> changed], [var |-> s.var, wr |-> << >>, err |-> "", fired |-> s.fired])
           newsig == ApplyWrites(s.sig, r.wr, 1)
           written == {r.wr[i].n : i \in 1..Len(r.wr)}
           ch2 == {g \in written : newsig[g] # s.sig[g]}
           s2 == [sig |-> newsig, var |-> r.var, err |-> r.err, fired |-> r.fired]
       IN IF r.err # "" THEN [s EXCEPT !.err = r.err]
          ELSE Settle(F, s2, s.sig, ch2, Wake(F, ch2), n + 1)

\* environment changes top-level input signals: asg is a function input name -> value
Drive(F, s, asg) ==
  LET ch == {g \in DOMAIN asg : asg[g] # s.sig[g]}
  IN IF ch = {} THEN s
     ELSE Settle(F, [s EXCEPT !.sig = asg @@ @], s.sig, ch, Wake(F, ch), 0)

\* LRM initialisation: every process executes once, then the design settles
InitState(F) ==
  LET s0 == [sig |-> F.sigs,
             var |-> [p \in 1..Len(F.procs) |-> F.procs[p].vars],
             err |-> F.err, fired |-> {}]
      varErr == {p \in 1..Len(F.procs) : \E n \in DOMAIN F.procs[p].vars : IsErr(F.procs[p].vars[n])}
  IN IF F.err # "" THEN s0
     ELSE IF varErr # {} THEN
          LET p == CHOOSE x \in varErr : TRUE
              n == CHOOSE y \in DOMAIN F.procs[p].vars : IsErr(F.procs[p].vars[y])
          IN [s0 EXCEPT !.err = F.procs[p].vars[n].v]
     ELSE Settle(F, s0, F.sigs, {}, 1..Len(F.procs), 0)

\* one clock period: data inputs applied while clk is low, rising edge, falling edge
Cycle(F, s, data, clk) ==
  LET s1 == Drive(F, s, data @@ (clk :> VSl(0)))
      s2 == Drive(F, s1, clk :> VSl(1))
      s3 == Drive(F, s2, clk :> VSl(0))
  IN s3

\* ... and the same stopping after the rising edge (falling edge in the next step's first Drive)
HalfCycle(F, s, data, clk) ==
  LET s1 == Drive(F, s, data @@ (clk :> VSl(0)))
  IN Drive(F, s1, clk :> VSl(1))
=============================================================================
