----------------------------- MODULE VhdlStatic -----------------------------
(***************************************************************************)
(* Static semantics of the emitted VHDL subset, as named predicates over   *)
(* the design AST produced by harness/vhdl_reader.py (C06, C07, C08, C12). *)
(* Each predicate returns the set of offending items (empty = holds), so   *)
(* a violation names what is wrong.                                        *)
(***************************************************************************)
EXTENDS VhdlSem

Entities(D) == SelectSeq(D.units, LAMBDA u : u.k = "entity")
Archs(D) == SelectSeq(D.units, LAMBDA u : u.k = "arch")
ArchOf(D, en) == LET a == SelectSeq(Archs(D), LAMBDA u : u.of = en) IN IF Len(a) = 0 THEN [k |-> "none"] ELSE a[1]
EntOf(D, en) == LET e == SelectSeq(Entities(D), LAMBDA u : u.n = en) IN IF Len(e) = 0 THEN [k |-> "none"] ELSE e[1]
Insts(a) == SelectSeq(a.stmts, LAMBDA s : s.k = "inst")
Index(seq, P(_)) == LET S == {i \in 1..Len(seq) : P(seq[i])} IN IF S = {} THEN 0 ELSE CHOOSE i \in S : \A j \in S : i <= j

(* ---------------- C12 ---------------- *)
\* "each entity template is emitted once": no two design units of the same kind and name (case-insensitive)
EmittedOnce(D) ==
  {D.units[i].n : i \in {j \in 1..Len(D.units) : \E k \in 1..Len(D.units) : k # j /\ D.units[k].k = D.units[j].k /\ D.units[k].n = D.units[j].n}}

\* "sub-entities are emitted before the entities that use them"
EntPos(D, en) == Index(D.units, LAMBDA u : u.k = "entity" /\ u.n = en)
ArchPos(D, en) == Index(D.units, LAMBDA u : u.k = "arch" /\ u.of = en)
\* the same, written directly: pairs (parent, child) where the child's entity declaration does not precede the parent's architecture
InstPairs(D) == UNION {{<<Archs(D)[i].of, Insts(Archs(D)[i])[j].entity, Insts(Archs(D)[i])[j].lib>> : j \in 1..Len(Insts(Archs(D)[i]))} : i \in 1..Len(Archs(D))}
NotBottomUp(D) == {pc \in InstPairs(D) : pc[3] = "work" /\ (EntPos(D, pc[2]) = 0 \/ EntPos(D, pc[2]) > ArchPos(D, pc[1])
                                                              \/ ArchPos(D, pc[2]) = 0 \/ ArchPos(D, pc[2]) > ArchPos(D, pc[1]))}

\* "every formal port is wired to exactly the actual given for it": in every port map each formal of the instantiated
\* entity occurs exactly once (in ports may be left out only if ... never, CoHDL always associates all), no unknown formal
PortMapDefects(D) ==
  UNION {UNION {LET a == Archs(D)[i]
                    s == Insts(a)[j]
                    ent == EntOf(D, s.entity)
                    formals == IF ent.k = "none" THEN {} ELSE {ent.ports[q].n : q \in 1..Len(ent.ports)}
                    used == [q \in 1..Len(s.pmap) |-> IF s.pmap[q].f.k = "name" THEN s.pmap[q].f.n ELSE "?"]
                IN IF s.lib # "work" THEN {}
                   ELSE {<<a.of, s.label, "unknown formal", used[q]>> : q \in {x \in 1..Len(used) : used[x] \notin formals}}
                        \cup {<<a.of, s.label, "formal associated twice", f>> : f \in {g \in formals : Cardinality({q \in 1..Len(used) : used[q] = g}) > 1}}
                        \cup {<<a.of, s.label, "formal not associated", f>> : f \in {g \in formals : Cardinality({q \in 1..Len(used) : used[q] = g}) = 0}}
           : j \in 1..Len(Insts(Archs(D)[i]))} : i \in 1..Len(Archs(D))}

\* "The emitted interface of every entity consists of exactly its declared ports with their declared names, directions,
\*  types and order": compared with the declaration recorded by the harness  decl = <<[n, mode, tn, w]>>
TypeName(ty) == ty.n
Interface(D, en) == LET e == EntOf(D, en) IN
  IF e.k = "none" THEN << >> ELSE [i \in 1..Len(e.ports) |-> [n |-> e.ports[i].n, mode |-> e.ports[i].mode, tn |-> TypeName(e.ports[i].ty),
                                                               w |-> RangeWidth(e.ports[i].ty)]]

(* ---------------- C07 ---------------- *)
\* root signal names assigned by a unit (process / concurrent statement), local names of one architecture
RECURSIVE TargetRoot(_)
TargetRoot(t) == CASE t.k = "name" -> t.n [] t.k = "app" -> TargetRoot(t.f) [] t.k = "slice" -> TargetRoot(t.p) [] OTHER -> "?"
RECURSIVE SigTargets(_), SigTargetsSeq(_, _)
SigTargets(s) ==
  CASE s.k = "sassign" -> {TargetRoot(s.t)}
    [] s.k = "if" -> SigTargetsSeq(s.th, 1) \cup SigTargetsSeq(s.el, 1)
    [] s.k = "case" -> UNION {SigTargetsSeq(s.arms[a].b, 1) : a \in 1..Len(s.arms)}
    [] OTHER -> {}
SigTargetsSeq(ss, i) == IF i > Len(ss) THEN {} ELSE SigTargets(ss[i]) \cup SigTargetsSeq(ss, i + 1)

\* drivers of an architecture: unit index -> set of signal roots it drives (instance outputs count as drivers)
DriversOf(D, a) ==
  [i \in 1..Len(a.stmts) |->
     LET s == a.stmts[i] IN
     CASE s.k = "process" -> SigTargetsSeq(s.body, 1)
       [] s.k \in {"cassign", "select"} -> {TargetRoot(s.t)}
       [] s.k = "inst" ->
            LET ent == EntOf(D, s.entity) IN
            IF ent.k = "none" THEN {}
            ELSE {TargetRoot(s.pmap[q].a) : q \in {x \in 1..Len(s.pmap) :
                    s.pmap[x].a.k # "open" /\ s.pmap[x].f.k = "name" /\
                    \E pp \in 1..Len(ent.ports) : ent.ports[pp].n = s.pmap[x].f.n /\ ent.ports[pp].mode \in {"out", "inout"}}}
       [] OTHER -> {}]

\* "each signal is driven by exactly one process, one concurrent block or one instance output":
\* CoHDL emits one concurrent statement per assignment of a concurrent block, so two concurrent statements may
\* drive disjoint parts of one signal; a signal driven by a process may not be driven by anything else, an instance
\* output not by anything else, and an input port by nothing.
MultipleDrivers(D) ==
  UNION {LET a == Archs(D)[k]
             dr == DriversOf(D, a)
             ent == EntOf(D, a.of)
             inports == IF ent.k = "none" THEN {} ELSE {ent.ports[q].n : q \in {x \in 1..Len(ent.ports) : ent.ports[x].mode = "in"}}
             kindOf(i) == a.stmts[i].k
         IN {<<a.of, g, "process and another driver">> : g \in {x \in UNION {dr[i] : i \in 1..Len(dr)} :
                  \E i, j \in 1..Len(dr) : i # j /\ x \in dr[i] /\ x \in dr[j] /\ (kindOf(i) = "process" \/ kindOf(i) = "inst")}}
            \cup {<<a.of, g, "input port driven">> : g \in (UNION {dr[i] : i \in 1..Len(dr)}) \cap inports}
         : k \in 1..Len(Archs(D))}

\* "process variables never appear outside their process"
ProcVars(s) == {s.decls[i].n : i \in {j \in 1..Len(s.decls) : s.decls[j].k = "variable"}}
VariablesEscape(D) ==
  UNION {LET a == Archs(D)[k]
             declared == {a.decls[i].n : i \in {j \in 1..Len(a.decls) : a.decls[j].k \in {"signal", "constant"}}}
                         \cup (LET ent == EntOf(D, a.of) IN IF ent.k = "none" THEN {} ELSE {ent.ports[q].n : q \in 1..Len(ent.ports)})
         IN UNION {LET s == a.stmts[i]
                       pv == ProcVars(s)
                       others == UNION {IF a.stmts[j].k = "process" THEN StmtsNames(a.stmts[j].body, 1) \ ProcVars(a.stmts[j])
                                        ELSE IF a.stmts[j].k = "cassign" THEN Names(a.stmts[j].e) \cup Names(a.stmts[j].t)
                                        ELSE IF a.stmts[j].k = "select" THEN Names(a.stmts[j].sel) \cup Names(a.stmts[j].t)
                                                 \cup UNION {Names(a.stmts[j].arms[q].e) : q \in 1..Len(a.stmts[j].arms)}
                                        ELSE {} : j \in (1..Len(a.stmts)) \ {i}}
                   IN IF s.k # "process" THEN {} ELSE {<<a.of, v>> : v \in (pv \ declared) \cap others}
                   : i \in 1..Len(a.stmts)}
         : k \in 1..Len(Archs(D))}
=============================================================================
