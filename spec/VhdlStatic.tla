----------------------------- MODULE VhdlStatic -----------------------------
(***************************************************************************)
(* Static semantics of the emitted VHDL subset, as named predicates over   *)
(* the design AST produced by harness/vhdl_reader.py (C06, C07, C08, C12). *)
(* Each predicate returns the set of offending items (empty = holds), so   *)
(* a violation names what is wrong.                                        *)
(***************************************************************************)
EXTENDS VhdlSem

Entities(D) == SelectSeq(D.units, LAMBDA u : u.k = "entity")
Archs(D) == SelectSeq(D.units, LAMBDA u : u.k = "arch")
ArchOf(D, en) == LET a == SelectSeq(Archs(D), LAMBDA u : u.of = en) IN IF Len(a) = 0 THEN [k |-> "none"] ELSE a[1]
EntOf(D, en) == LET e == SelectSeq(Entities(D), LAMBDA u : u.n = en) IN IF Len(e) = 0 THEN [k |-> "none"] ELSE e[1]
Insts(a) == SelectSeq(a.stmts, LAMBDA s : s.k = "inst")
Index(seq, P(_)) == LET S == {i \in 1..Len(seq) : P(seq[i])} IN IF S = {} THEN 0 ELSE CHOOSE i \in S : \A j \in S : i <= j

(* ---------------- C12 ---------------- *)
\* "each entity template is emitted once": no two design units of the same kind and name (case-insensitive)
EmittedOnce(D) ==
  {D.units[i].n : i \in {j \in 1..Len(D.units) : \E k \in 1..Len(D.units) : k # j /\ D.units[k].k = D.units[j].k /\ D.units[k].n = D.units[j].n}}

\* "sub-entities are emitted before the entities that use them"
EntPos(D, en) == Index(D.units, LAMBDA u : u.k = "entity" /\ u.n = en)
ArchPos(D, en) == Index(D.units, LAMBDA u : u.k = "arch" /\ u.of = en)
\* the same, written directly: pairs (parent, child) where the child's entity declaration does not precede the parent's architecture
InstPairs(D) == UNION {{<<Archs(D)[i].of, Insts(Archs(D)[i])[j].entity, Insts(Archs(D)[i])[j].lib>> : j \in 1..Len(Insts(Archs(D)[i]))} : i \in 1..Len(Archs(D))}
NotBottomUp(D) == {pc \in InstPairs(D) : pc[3] = "work" /\ (EntPos(D, pc[2]) = 0 \/ EntPos(D, pc[2]) > ArchPos(D, pc[1])
                                                              \/ ArchPos(D, pc[2]) = 0 \/ ArchPos(D, pc[2]) > ArchPos(D, pc[1]))}

\* "every formal port is wired to exactly the actual given for it": in every port map each formal of the instantiated
\* entity occurs exactly once (in ports may be left out only if ... never, CoHDL always associates all), no unknown formal
PortMapDefects(D) ==
  UNION {UNION {LET a == Archs(D)[i]
                    s == Insts(a)[j]
                    ent == EntOf(D, s.entity)
                    formals == IF ent.k = "none" THEN {} ELSE {ent.ports[q].n : q \in 1..Len(ent.ports)}
                    used == [q \in 1..Len(s.pmap) |-> IF s.pmap[q].f.k = "name" THEN s.pmap[q].f.n ELSE "?"]
                IN IF s.lib # "work" THEN {}
                   ELSE {<<a.of, s.label, "unknown formal", used[q]>> : q \in {x \in 1..Len(used) : used[x] \notin formals}}
                        \cup {<<a.of, s.label, "formal associated twice", f>> : f \in {g \in formals : Cardinality({q \in 1..Len(used) : used[q] = g}) > 1}}
                        \cup {<<a.of, s.label, "formal not associated", f>> : f \in {g \in formals : Cardinality({q \in 1..Len(used) : used[q] = g}) = 0}}
           : j \in 1..Len(Insts(Archs(D)[i]))} : i \in 1..Len(Archs(D))}

\* "The emitted interface of every entity consists of exactly its declared ports with their declared names, directions,
\*  types and order": compared with the declaration recorded by the harness  decl = <<[n, mode, tn, w]>>
TypeName(ty) == ty.n
Interface(D, en) == LET e == EntOf(D, en) IN
  IF e.k = "none" THEN << >> ELSE [i \in 1..Len(e.ports) |-> [n |-> e.ports[i].n, mode |-> e.ports[i].mode, tn |-> TypeName(e.ports[i].ty),
                                                               w |-> RangeWidth(e.ports[i].ty)]]

(* ---------------- C07 ---------------- *)
\* root signal names assigned by a unit (process / concurrent statement), local names of one architecture
RECURSIVE TargetRoot(_)
TargetRoot(t) == CASE t.k = "name" -> t.n [] t.k = "app" -> TargetRoot(t.f) [] t.k = "slice" -> TargetRoot(t.p) [] OTHER -> "?"
RECURSIVE SigTargets(_), SigTargetsSeq(_, _)
SigTargets(s) ==
  CASE s.k = "sassign" -> {TargetRoot(s.t)}
    [] s.k = "if" -> SigTargetsSeq(s.th, 1) \cup SigTargetsSeq(s.el, 1)
    [] s.k = "case" -> UNION {SigTargetsSeq(s.arms[a].b, 1) : a \in 1..Len(s.arms)}
    [] OTHER -> {}
SigTargetsSeq(ss, i) == IF i > Len(ss) THEN {} ELSE SigTargets(ss[i]) \cup SigTargetsSeq(ss, i + 1)

\* drivers of an architecture: unit index -> set of signal roots it drives (instance outputs count as drivers)
DriversOf(D, a) ==
  [i \in 1..Len(a.stmts) |->
     LET s == a.stmts[i] IN
     CASE s.k = "process" -> SigTargetsSeq(s.body, 1)
       [] s.k \in {"cassign", "select"} -> {TargetRoot(s.t)}
       [] s.k = "inst" ->
            LET ent == EntOf(D, s.entity) IN
            IF ent.k = "none" THEN {}
            ELSE {TargetRoot(s.pmap[q].a) : q \in {x \in 1..Len(s.pmap) :
                    s.pmap[x].a.k # "open" /\ s.pmap[x].f.k = "name" /\
                    \E pp \in 1..Len(ent.ports) : ent.ports[pp].n = s.pmap[x].f.n /\ ent.ports[pp].mode \in {"out", "inout"}}}
       [] OTHER -> {}]

\* "each signal is driven by exactly one process, one concurrent block or one instance output":
\* CoHDL emits one concurrent statement per assignment of a concurrent block, so two concurrent statements may
\* drive disjoint parts of one signal; a signal driven by a process may not be driven by anything else, an instance
\* output not by anything else, and an input port by nothing.
MultipleDrivers(D) ==
  UNION {LET a == Archs(D)[k]
             dr == DriversOf(D, a)
             ent == EntOf(D, a.of)
             inports == IF ent.k = "none" THEN {} ELSE {ent.ports[q].n : q \in {x \in 1..Len(ent.ports) : ent.ports[x].mode = "in"}}
             kindOf(i) == a.stmts[i].k
         IN {<<a.of, g, "process and another driver">> : g \in {x \in UNION {dr[i] : i \in 1..Len(dr)} :
                  \E i, j \in 1..Len(dr) : i # j /\ x \in dr[i] /\ x \in dr[j] /\ (kindOf(i) = "process" \/ kindOf(i) = "inst")}}
            \cup {<<a.of, g, "input port driven">> : g \in (UNION {dr[i] : i \in 1..Len(dr)}) \cap inports}
         : k \in 1..Len(Archs(D))}

\* "process variables never appear outside their process"
ProcVars(s) == {s.decls[i].n : i \in {j \in 1..Len(s.decls) : s.decls[j].k = "variable"}}
\* every name a process declares: variables, the types of user variables and their enumeration literals
ProcLocal(s) == {s.decls[i].n : i \in 1..Len(s.decls)}
                \cup UNION {IF s.decls[i].k = "enum" THEN {s.decls[i].lits[j] : j \in 1..Len(s.decls[i].lits)} ELSE {} : i \in 1..Len(s.decls)}
VariablesEscape(D) ==
  UNION {LET a == Archs(D)[k]
             declared == {a.decls[i].n : i \in {j \in 1..Len(a.decls) : a.decls[j].k \in {"signal", "constant"}}}
                         \cup (LET ent == EntOf(D, a.of) IN IF ent.k = "none" THEN {} ELSE {ent.ports[q].n : q \in 1..Len(ent.ports)})
         IN UNION {LET s == a.stmts[i]
                       pv == ProcVars(s)
                       others == UNION {IF a.stmts[j].k = "process" THEN StmtsNames(a.stmts[j].body, 1) \ ProcVars(a.stmts[j])
                                        ELSE IF a.stmts[j].k = "cassign" THEN Names(a.stmts[j].e) \cup Names(a.stmts[j].t)
                                        ELSE IF a.stmts[j].k = "select" THEN Names(a.stmts[j].sel) \cup Names(a.stmts[j].t)
                                                 \cup UNION {Names(a.stmts[j].arms[q].e) : q \in 1..Len(a.stmts[j].arms)}
                                        ELSE {} : j \in (1..Len(a.stmts)) \ {i}}
                   IN IF s.k # "process" THEN {} ELSE {<<a.of, v>> : v \in (pv \ declared) \cap others}
                   : i \in 1..Len(a.stmts)}
         : k \in 1..Len(Archs(D))}

(* ---------------- C06 ---------------- *)
Predefined == {"std_logic", "std_ulogic", "std_logic_vector", "unsigned", "signed", "boolean", "integer", "natural", "positive",
               "resize", "to_integer", "to_unsigned", "to_signed", "rising_edge", "falling_edge", "shift_left", "shift_right",
               "true", "false", "ieee", "std_logic_1164", "numeric_std", "work", "bit", "bit_vector", "string", "now", "time"}

Dups(seq) == {seq[i] : i \in {j \in 1..Len(seq) : \E k \in 1..Len(seq) : k # j /\ seq[k] = seq[j]}}

\* "every identifier is declared exactly once in its scope (case-insensitively)"
ArchDeclNames(D, a) ==
  LET ent == EntOf(D, a.of)
      ports == IF ent.k = "none" THEN << >> ELSE [i \in 1..Len(ent.ports) |-> ent.ports[i].n]
      decls == [i \in 1..Len(a.decls) |-> a.decls[i].n]
      labels == LET ls == SelectSeq(a.stmts, LAMBDA x : x.k \in {"process", "inst"} /\ x.label # "") IN [i \in 1..Len(ls) |-> ls[i].label]
  IN ports \o decls \o labels
\* enumeration literals are overloadable: the same literal may belong to several enumeration types
ArchLiterals(a) == LET es == SelectSeq(a.decls, LAMBDA d : d.k = "enum") IN
                   IF Len(es) = 0 THEN {} ELSE UNION {{es[i].lits[j] : j \in 1..Len(es[i].lits)} : i \in 1..Len(es)}
RECURSIVE SetAsSeq(_)
SetAsSeq(S) == IF S = {} THEN << >> ELSE LET x == CHOOSE y \in S : TRUE IN <<x>> \o SetAsSeq(S \ {x})
ArchRegionNames(D, a) == ArchDeclNames(D, a) \o SetAsSeq(ArchLiterals(a))
DeclaredTwice(D) ==
  UNION {{<<Archs(D)[k].of, n>> : n \in Dups(ArchDeclNames(D, Archs(D)[k]))
                                      \cup (ArchLiterals(Archs(D)[k]) \cap {ArchDeclNames(D, Archs(D)[k])[i] : i \in 1..Len(ArchDeclNames(D, Archs(D)[k]))})}
         : k \in 1..Len(Archs(D))}
  \cup UNION {UNION {LET s == Archs(D)[k].stmts[i] IN
                     IF s.k # "process" THEN {} ELSE {<<Archs(D)[k].of, s.label, n>> : n \in Dups([j \in 1..Len(s.decls) |-> s.decls[j].n])}
                     : i \in 1..Len(Archs(D)[k].stmts)} : k \in 1..Len(Archs(D))}

\* every name occurring in the statements of an architecture
ArchUsedNames(a) ==
  UNION {LET s == a.stmts[i] IN
         CASE s.k = "process" -> StmtsNames(s.body, 1) \cup {s.sens.names[j].n : j \in 1..Len(s.sens.names)}
           [] s.k = "cassign" -> Names(s.e) \cup Names(s.t)
           [] s.k = "select" -> Names(s.sel) \cup Names(s.t) \cup UNION {Names(s.arms[q].e) \cup NamesSeq(SelectSeq(s.arms[q].ch, LAMBDA c : c.k # "others"), 1) : q \in 1..Len(s.arms)}
           [] s.k = "cassert" -> Names(s.c)
           [] s.k = "inst" -> UNION {IF s.pmap[q].a.k = "open" THEN {} ELSE Names(s.pmap[q].a) : q \in 1..Len(s.pmap)}
           [] OTHER -> {} : i \in 1..Len(a.stmts)}
  \cup UNION {IF a.decls[i].k \in {"signal", "constant"} /\ ~IsNone(a.decls[i].init) THEN Names(a.decls[i].init) ELSE {} : i \in 1..Len(a.decls)}
TypeNamesUsed(D, a) ==
  LET ent == EntOf(D, a.of) IN
  (IF ent.k = "none" THEN {} ELSE {ent.ports[i].ty.n : i \in 1..Len(ent.ports)})
  \cup {a.decls[i].ty.n : i \in {j \in 1..Len(a.decls) : a.decls[j].k \in {"signal", "constant"}}}
  \cup UNION {IF a.stmts[i].k = "process" THEN {a.stmts[i].decls[j].ty.n : j \in {q \in 1..Len(a.stmts[i].decls) : a.stmts[i].decls[q].k = "variable"}} ELSE {} : i \in 1..Len(a.stmts)}

RECURSIVE CallNames(_), CallNamesSeq(_, _), StmtCallNames(_), StmtsCallNames(_, _)
CallNames(e) ==
  CASE e.k = "app" -> (IF e.f.k = "name" THEN {e.f.n} ELSE CallNames(e.f)) \cup CallNamesSeq(e.a, 1)
    [] e.k \in {"paren", "un", "qual"} -> CallNames(e.e)
    [] e.k = "bin" -> CallNames(e.l) \cup CallNames(e.r)
    [] e.k = "slice" -> CallNames(e.p) \cup CallNames(e.l) \cup CallNames(e.r)
    [] e.k = "agg" -> UNION {CallNames(e.items[j].e) : j \in 1..Len(e.items)}
    [] OTHER -> {}
CallNamesSeq(es, i) == IF i > Len(es) THEN {} ELSE CallNames(es[i]) \cup CallNamesSeq(es, i + 1)
StmtCallNames(s) ==
  CASE s.k \in {"vassign", "sassign"} -> CallNames(s.e) \cup CallNames(s.t)
    [] s.k = "if" -> CallNames(s.c) \cup StmtsCallNames(s.th, 1) \cup StmtsCallNames(s.el, 1)
    [] s.k = "case" -> CallNames(s.e) \cup UNION {StmtsCallNames(s.arms[a].b, 1) : a \in 1..Len(s.arms)}
    [] s.k = "assert" -> CallNames(s.c)
    [] OTHER -> {}
StmtsCallNames(ss, i) == IF i > Len(ss) THEN {} ELSE StmtCallNames(ss[i]) \cup StmtsCallNames(ss, i + 1)
ArchCallNames(a) ==
  UNION {LET s == a.stmts[i] IN
         CASE s.k = "process" -> StmtsCallNames(s.body, 1)
           [] s.k = "cassign" -> CallNames(s.e) \cup CallNames(s.t)
           [] s.k = "select" -> CallNames(s.sel) \cup UNION {CallNames(s.arms[q].e) : q \in 1..Len(s.arms)}
           [] OTHER -> {} : i \in 1..Len(a.stmts)}

\* "never hides a predefined name the emitted text itself relies on"
\* A type mark is hidden only in the text that FOLLOWS the hiding declaration (`signal integer : integer;` is legal: within the
\* declaration the predefined type is still visible; upstream test_boolean_02 does exactly that): the type marks relied on under
\* a hiding declaration are those of later architecture declarations and of process declarations (entity ports lie outside).
HiddenTypeMarks(D, a) ==
  LET ent == EntOf(D, a.of)
      portNames == IF ent.k = "none" THEN {} ELSE {ent.ports[i].n : i \in 1..Len(ent.ports)}
      hasTy(d) == d.k \in {"signal", "constant", "variable"}
      archTy(lo) == {a.decls[j].ty.n : j \in {q \in lo..Len(a.decls) : hasTy(a.decls[q])}}
      procTy(s, lo) == {s.decls[j].ty.n : j \in {q \in lo..Len(s.decls) : hasTy(s.decls[q])}}
      allProcTy == UNION {IF a.stmts[i].k = "process" THEN procTy(a.stmts[i], 1) ELSE {} : i \in 1..Len(a.stmts)}
      archLits(i) == IF a.decls[i].k = "enum" THEN {a.decls[i].lits[j] : j \in 1..Len(a.decls[i].lits)} ELSE {}
  IN  \* hidden by a port of the entity: every type mark of the architecture
      (portNames \cap (archTy(1) \cup allProcTy))
      \* hidden by an architecture declaration: the type marks of the declarations after it and of all processes
      \cup UNION {({a.decls[i].n} \cup archLits(i)) \cap (archTy(i + 1) \cup allProcTy) : i \in 1..Len(a.decls)}
      \* hidden by a process declaration: the type marks of the later declarations of that process
      \cup UNION {IF a.stmts[i].k # "process" THEN {}
                  ELSE UNION {{a.stmts[i].decls[j].n} \cap procTy(a.stmts[i], j + 1) : j \in 1..Len(a.stmts[i].decls)} : i \in 1..Len(a.stmts)}

HidesPredefined(D) ==
  UNION {LET a == Archs(D)[k]
             declared == {ArchRegionNames(D, a)[i] : i \in 1..Len(ArchRegionNames(D, a))}
                         \cup UNION {IF a.stmts[i].k = "process" THEN ProcLocal(a.stmts[i]) ELSE {} : i \in 1..Len(a.stmts)}
             \* names the text relies on as predefined: names in call position, true / false, and hidden type marks
             relied == (ArchCallNames(a) \cup ({"true", "false"} \cap ArchUsedNames(a))) \cap Predefined
         IN {<<a.of, n>> : n \in (declared \cap relied) \cup (HiddenTypeMarks(D, a) \cap Predefined)} : k \in 1..Len(Archs(D))}

\* every name used is declared and visible ("the same object is always referred to by the same name")
Undeclared(D) ==
  UNION {LET a == Archs(D)[k]
             region == {ArchRegionNames(D, a)[i] : i \in 1..Len(ArchRegionNames(D, a))}
         IN UNION {LET s == a.stmts[i]
                       used == CASE s.k = "process" -> StmtsNames(s.body, 1) \cup {s.sens.names[j].n : j \in 1..Len(s.sens.names)}
                                 [] s.k = "cassign" -> Names(s.e) \cup Names(s.t)
                                 [] s.k = "select" -> Names(s.sel) \cup Names(s.t) \cup UNION {Names(s.arms[q].e) \cup NamesSeq(SelectSeq(s.arms[q].ch, LAMBDA c : c.k # "others"), 1) : q \in 1..Len(s.arms)}
                                 [] s.k = "cassert" -> Names(s.c)
                                 [] s.k = "inst" -> UNION {IF s.pmap[q].a.k = "open" THEN {} ELSE Names(s.pmap[q].a) : q \in 1..Len(s.pmap)}
                                 [] OTHER -> {}
                       local == IF s.k = "process" THEN ProcLocal(s) ELSE {}
                   IN {<<a.of, n>> : n \in used \ (region \cup local \cup Predefined)} : i \in 1..Len(a.stmts)}
         : k \in 1..Len(Archs(D))}

\* "output ports are never read"
RECURSIVE ReadNames(_)
ReadNames(s) == CASE s.k = "process" -> StmtsReads(s.body, 1)
                  [] s.k = "cassign" -> Names(s.e) \cup TargetIndexNames(s.t)
                  [] s.k = "select" -> Names(s.sel) \cup TargetIndexNames(s.t) \cup UNION {Names(s.arms[q].e) : q \in 1..Len(s.arms)}
                  [] s.k = "cassert" -> Names(s.c)
                  [] OTHER -> {}
OutPortRead(D) ==
  UNION {LET a == Archs(D)[k]
             ent == EntOf(D, a.of)
             outs == IF ent.k = "none" THEN {} ELSE {ent.ports[i].n : i \in {j \in 1..Len(ent.ports) : ent.ports[j].mode = "out"}}
             inst_in(s) == LET ce == EntOf(D, s.entity) IN
                           IF ce.k = "none" THEN {} ELSE
                           UNION {IF s.pmap[q].a.k # "open" /\ s.pmap[q].f.k = "name" /\ (\E pp \in 1..Len(ce.ports) : ce.ports[pp].n = s.pmap[q].f.n /\ ce.ports[pp].mode = "in")
                                  THEN Names(s.pmap[q].a) ELSE {} : q \in 1..Len(s.pmap)}
         IN {<<a.of, n>> : n \in outs \cap UNION {IF a.stmts[i].k = "inst" THEN inst_in(a.stmts[i])
                                                   ELSE ReadNames(a.stmts[i]) \ (IF a.stmts[i].k = "process" THEN ProcVars(a.stmts[i]) ELSE {})
                                                   : i \in 1..Len(a.stmts)}}
         : k \in 1..Len(Archs(D))}

\* "case statements have distinct choices and an others branch"
RECURSIVE CaseDefectsIn(_), CaseDefectsSeq(_, _)
ChoiceList(arms) == FoldSeq(LAMBDA acc, arm : acc \o arm.ch, << >>, arms, 1)
ArmsDefect(arms) == (\A i \in 1..Len(ChoiceList(arms)) : ChoiceList(arms)[i].k # "others")
                    \/ (\E i, j \in 1..Len(ChoiceList(arms)) : i # j /\ ChoiceList(arms)[i] = ChoiceList(arms)[j])
CaseDefectsIn(s) ==
  CASE s.k = "case" -> (IF ArmsDefect(s.arms) THEN {s.e} ELSE {}) \cup UNION {CaseDefectsSeq(s.arms[a].b, 1) : a \in 1..Len(s.arms)}
    [] s.k = "if" -> CaseDefectsSeq(s.th, 1) \cup CaseDefectsSeq(s.el, 1)
    [] OTHER -> {}
CaseDefectsSeq(ss, i) == IF i > Len(ss) THEN {} ELSE CaseDefectsIn(ss[i]) \cup CaseDefectsSeq(ss, i + 1)
CaseDefects(D) ==
  UNION {UNION {LET s == Archs(D)[k].stmts[i] IN
                IF s.k = "process" THEN {<<Archs(D)[k].of, s.label>> : x \in CaseDefectsSeq(s.body, 1)}
                ELSE IF s.k = "select" /\ ArmsDefect(s.arms) THEN {<<Archs(D)[k].of, "select">>} ELSE {}
                : i \in 1..Len(Archs(D)[k].stmts)} : k \in 1..Len(Archs(D))}

\* "every process has a non-empty sensitivity list that, for processes not guarded by a clock edge, contains every
\*  signal the process reads": signals read outside the regions guarded by an edge condition must be listed
RECURSIVE HasEdge(_)
HasEdge(e) == CASE e.k = "app" -> (e.f.k = "name" /\ e.f.n \in {"rising_edge", "falling_edge"}) \/ \E i \in 1..Len(e.a) : HasEdge(e.a[i])
                [] e.k = "bin" -> HasEdge(e.l) \/ HasEdge(e.r)
                [] e.k \in {"paren", "un"} -> HasEdge(e.e)
                [] OTHER -> FALSE
RECURSIVE UnguardedReads(_), UnguardedReadsSeq(_, _)
UnguardedReads(s) ==
  CASE s.k = "if" -> IF HasEdge(s.c) THEN (Names(s.c) \cup UnguardedReadsSeq(s.el, 1)) ELSE Names(s.c) \cup UnguardedReadsSeq(s.th, 1) \cup UnguardedReadsSeq(s.el, 1)
    [] s.k = "case" -> Names(s.e) \cup UNION {UnguardedReadsSeq(s.arms[a].b, 1) : a \in 1..Len(s.arms)}
    [] OTHER -> StmtReads(s)
UnguardedReadsSeq(ss, i) == IF i > Len(ss) THEN {} ELSE UnguardedReads(ss[i]) \cup UnguardedReadsSeq(ss, i + 1)
SensitivityDefects(D) ==
  UNION {LET a == Archs(D)[k]
             sc == ScopeOf(EntOf(D, a.of), a)
         IN UNION {LET s == a.stmts[i]
                       listed == {s.sens.names[j].n : j \in 1..Len(s.sens.names)}
                       needed == (UnguardedReadsSeq(s.body, 1) \ ProcVars(s)) \cap sc.signames
                   IN IF s.k # "process" \/ s.sens.all = 1 THEN {}
                      ELSE (IF listed = {} THEN {<<a.of, s.label, "empty sensitivity list">>} ELSE {})
                           \cup {<<a.of, s.label, n>> : n \in needed \ listed}
                   : i \in 1..Len(a.stmts)}
         : k \in 1..Len(Archs(D))}

\* typing: every statement of every branch of every process / concurrent statement is evaluated once against typed
\* (all-zero) values; an error that depends on the values only is ignored, any other error is a typing defect
ValueDependent == {"rt:division by zero", "rt:index out of range", "rt:slice out of range", "rt:negative value for natural operand",
                   "rt:to_unsigned of negative value", "rt:negative shift count (natural)", "rt:no case alternative selected",
                   "rt:negative size", "rt:aggregate choice out of range", "uninit"}
RECURSIVE ExecAll(_, _, _, _)
ExecAllStmt(s, st, env) ==
  LET clr(r) == IF r.err \in ValueDependent THEN [r EXCEPT !.err = ""] ELSE r IN
  CASE s.k = "if" ->
         LET c == Eval(s.c, st.var, env) IN
         IF IsErr(c) THEN clr([st EXCEPT !.err = c.v])
         ELSE IF c.t # "bool" THEN [st EXCEPT !.err = "type:condition must be boolean"]
         ELSE ExecAll(s.el, 1, ExecAll(s.th, 1, st, env), env)
    [] s.k = "case" ->
         LET sel == Eval(s.e, st.var, env)
             chk(arm) == \A j \in 1..Len(arm.ch) : arm.ch[j].k = "others" \/
                           LET cv == Eval(arm.ch[j], st.var, env) IN ~IsErr(cv) /\ ~IsErr(Relational("=", sel, cv))
         IN IF IsErr(sel) THEN clr([st EXCEPT !.err = sel.v])
            ELSE IF \E a \in 1..Len(s.arms) : ~chk(s.arms[a]) THEN [st EXCEPT !.err = "type:case choice does not match the selector type"]
            ELSE FoldSeq(LAMBDA acc, arm : ExecAll(arm.b, 1, acc, env), st, s.arms, 1)
    [] OTHER -> clr(ExecStmt(s, st, env))
ExecAll(stmts, i, st, env) ==
  IF i > Len(stmts) \/ st.err # "" THEN st ELSE ExecAll(stmts, i + 1, ExecAllStmt(stmts[i], st, env), env)

TypeDefects(D, top) ==
  LET F == Elab(D, top, {})
      zero(v) == IF IsVec(v) THEN V(v.t, Zeros(Len(v.v))) ELSE IF v.t = "sl" THEN VSl(0) ELSE v
      sig0 == [g \in DOMAIN F.sigs |-> zero(F.sigs[g])]
  IN IF F.err # "" THEN {<<"elaboration", F.err>>}
     ELSE UNION {LET P == F.procs[p]
                     env == [sig |-> sig0, prev |-> sig0, changed |-> {}, sc |-> P.sc, shape |-> P.shape, gn |-> P.gn, cls |-> P.cls]
                     st0 == [var |-> [n \in DOMAIN P.vars |-> IF IsErr(P.vars[n]) THEN P.vars[n] ELSE zero(IF n \in P.poison THEN P.shape[n] ELSE P.vars[n])],
                             wr |-> << >>, err |-> "", fired |-> {}, ret |-> NoRet]
                     r == CASE P.kind = "process" -> ExecAll(P.node.body, 1, st0, env)
                            [] P.kind = "cassign" -> ExecAllStmt([k |-> "sassign", t |-> P.node.t, e |-> P.node.e], st0, env)
                            [] P.kind = "select" -> ExecAllStmt([k |-> "case", e |-> P.node.sel,
                                                       arms |-> [a \in 1..Len(P.node.arms) |-> [ch |-> P.node.arms[a].ch,
                                                                   b |-> <<[k |-> "sassign", t |-> P.node.t, e |-> P.node.arms[a].e]>>]]], st0, env)
                            [] P.kind = "cassert" -> ExecAllStmt([k |-> "assert", c |-> P.node.c, m |-> P.node.m], st0, env)
                            [] OTHER -> RunProc(F, p, [sig |-> sig0, var |-> [q \in 1..Len(F.procs) |-> F.procs[q].vars], err |-> "", fired |-> {}], sig0, {})
                 IN IF r.err = "" \/ r.err \in ValueDependent THEN {} ELSE {<<P.kind, P.label, r.err>>}
                 : p \in 1..Len(F.procs)}
=============================================================================
