------------------------------ MODULE CoAccept ------------------------------
(***************************************************************************)
(* Compile-time acceptance rules of the source language (C07, C08), as     *)
(* predicates over the ADL description.  Each returns "" (accepted) or a   *)
(* "reject:..." reason.                                                    *)
(***************************************************************************)
EXTENDS CoSem

(* ---------------- C07: one driver ---------------- *)
\* "A design in which a signal or port (or any slice or element of it) is driven from more than one context ...,
\*  in which an input port is written, or in which a variable or intermediate value is used by more than one
\*  context, is rejected at compile time."
RECURSIVE ExprNames(_), ExprsNames(_, _)
ExprNames(e) ==
  CASE e.k = "ref" -> {e.n}
    [] e.k \in {"un", "slice", "idx", "view", "resize"} -> ExprNames(e.e)
    [] e.k = "bin" -> ExprNames(e.l) \cup ExprNames(e.r)
    [] e.k = "chain" -> ExprsNames(e.es, 1)
    [] e.k = "ifexp" -> ExprNames(e.c) \cup ExprNames(e.a) \cup ExprNames(e.b)
    [] e.k = "select" -> ExprNames(e.e) \cup ExprsNames(e.vals, 1) \cup (IF e.hasdefault = 1 THEN ExprNames(e.default) ELSE {})
    [] e.k \in {"any", "all"} -> ExprsNames(e.es, 1)
    [] e.k = "dynidx" -> ExprNames(e.e) \cup ExprNames(e.i)
    [] e.k = "call" -> ExprsNames(e.args, 1)
    [] OTHER -> {}
ExprsNames(es, i) == IF i > Len(es) THEN {} ELSE ExprNames(es[i]) \cup ExprsNames(es, i + 1)

PathNames(path) == UNION {IF path[i].k = "dynidx" THEN ExprNames(path[i].e) ELSE {} : i \in 1..Len(path)}

RECURSIVE StmtUses(_), StmtsUses(_, _)
\* every object name read or written by a statement list
StmtUses(s) ==
  CASE s.k = "assign" -> {s.t.obj} \cup ExprNames(s.e) \cup PathNames(s.t.path)
    [] s.k = "bind" -> ExprNames(s.e)
    [] s.k = "local" -> {s.n} \cup ExprNames(s.init)
    [] s.k = "ucall" -> ExprsNames(s.args, 1) \cup StmtsUses(s.body, 1)
    [] s.k = "return" -> IF s.has = 1 THEN ExprNames(s.e) ELSE {}
    [] s.k = "always" -> ExprNames(s.e)
    [] s.k = "match" -> ExprNames(s.e) \cup StmtsUses(s.default, 1) \cup UNION {StmtsUses(s.cases[i].body, 1) : i \in 1..Len(s.cases)}
    [] s.k = "forchain" -> (IF s.mode = "bind" THEN {} ELSE {s.t.obj}) \cup ExprsNames(s.conds, 1) \cup ExprsNames(s.bes, 1) \cup (IF s.haselse = 1 THEN ExprNames(s.elseval) ELSE {})
    [] s.k = "if" -> (IF s.c.k \in {"true", "false"} THEN {} ELSE ExprNames(s.c)) \cup StmtsUses(s.th, 1) \cup StmtsUses(s.el, 1)
    [] s.k = "while" -> (IF s.c.k \in {"true", "false"} THEN {} ELSE ExprNames(s.c)) \cup StmtsUses(s.body, 1)
    [] s.k = "await" -> IF s.c.k \in {"true", "false"} THEN {} ELSE ExprNames(s.c)
    [] s.k = "waitfor" -> IF s.n.k = "int" THEN {} ELSE ExprNames(s.n)
    [] OTHER -> {}
StmtsUses(ss, i) == IF i > Len(ss) THEN {} ELSE StmtUses(ss[i]) \cup StmtsUses(ss, i + 1)

DriversAccept(E) ==
  LET D == Summary(E)
      ctxs == 1..Len(E.ctxs)
      wr(c) == StmtsTargets(E.ctxs[c].body \o OnReset(E.ctxs[c]), 1, {"next", "value", "push"})
      us(c) == StmtsUses(E.ctxs[c].body \o OnReset(E.ctxs[c]), 1) \cap DOMAIN D.kind
      multi == {n \in DOMAIN D.kind : Cardinality({c \in ctxs : n \in wr(c)}) > 1}
      inwr == {n \in DOMAIN D.kind : D.kind[n] = "port_in" /\ \E c \in ctxs : n \in wr(c)}
      varshared == {n \in DOMAIN D.kind : D.kind[n] = "variable" /\ Cardinality({c \in ctxs : n \in us(c)}) > 1}
      varconc == {n \in DOMAIN D.kind : D.kind[n] = "variable" /\ \E c \in ctxs : E.ctxs[c].kind = "conc" /\ n \in us(c)}
  IN IF inwr # {} THEN "reject:input port written"
     ELSE IF multi # {} THEN "reject:object driven from more than one context"
     ELSE IF varshared # {} THEN "reject:variable used by more than one context"
     ELSE IF varconc # {} THEN "reject:variable in a concurrent context"
     ELSE ""

(* ---------------- C08: intermediates ---------------- *)
\* "Source programs in which a value computed in only some branches (of if, match or a for-break chain) is used
\*  afterwards are rejected, and in a state machine no intermediate computed in one state is consumed in another."
\* forward analysis: the set of intermediates definitely defined (in the current state); "?" marks a rejected use
RECURSIVE TmpStmts(_, _, _, _, _)
TmpUse(names, objs, defined) == \A n \in names : n \in objs \/ n \in defined

CondNames(c) == IF c.k \in {"true", "false"} THEN {} ELSE ExprNames(c)

\* -> [def: definitely defined in this state, bound: names bound anywhere so far, ok]
\* (a Python local may be bound only once per scope: "assignment to already used name" is a compile-time error)
TmpStmt(s, objs, defined, bound) ==
  CASE s.k = "assign" -> [def |-> defined, bound |-> bound, ok |-> TmpUse(ExprNames(s.e) \cup PathNames(s.t.path), objs, defined)]
    [] s.k = "bind" -> [def |-> defined \cup {s.n}, bound |-> bound \cup {s.n},
                        ok |-> TmpUse(ExprNames(s.e), objs, defined) /\ s.n \notin bound /\ s.n \notin objs]
    [] s.k = "if" ->
         LET a == TmpStmts(s.th, 1, objs, defined, bound)
             b == TmpStmts(s.el, 1, objs, defined, a.bound)
         IN [def |-> a.def \cap b.def, bound |-> b.bound, ok |-> TmpUse(CondNames(s.c), objs, defined) /\ a.ok /\ b.ok]
    [] s.k = "local" -> [def |-> defined, bound |-> bound, ok |-> TmpUse(ExprNames(s.init), objs, defined)]
    [] s.k = "match" ->
         \* "a value computed in only some branches (of if, match or a for-break chain) ... used afterwards" is rejected:
         \* defined after the match = defined in every case AND in the default (a missing default is an empty branch)
         LET RECURSIVE Arms(_, _, _)
             Arms(i, b, acc) == IF i > Len(s.cases) THEN [bound |-> b, rs |-> acc]
                                ELSE LET r == TmpStmts(s.cases[i].body, 1, objs, defined, b) IN Arms(i + 1, r.bound, Append(acc, r))
             a == Arms(1, bound, << >>)
             d == TmpStmts(s.default, 1, objs, defined, a.bound)
             all == Append(a.rs, d)
         IN [def |-> {n \in d.def : \A i \in 1..Len(all) : n \in all[i].def}, bound |-> d.bound,
             ok |-> TmpUse(ExprNames(s.e), objs, defined) /\ \A i \in 1..Len(all) : all[i].ok]
    [] s.k = "forchain" ->
         \* every iteration of the unrolled loop rebinds the Python name to a fresh intermediate; after the chain the name refers
         \* to the one of the LAST branch traced (the else block, or the last iteration), which is written on that branch only
         LET uses == ExprsNames(s.conds, 1) \cup ExprsNames(s.bes, 1) \cup (IF s.haselse = 1 THEN ExprNames(s.elseval) ELSE {})
         IN IF s.mode = "bind"
            THEN [def |-> defined \ {s.t.obj}, bound |-> bound \cup {s.t.obj}, ok |-> TmpUse(uses, objs, defined) /\ s.t.obj \notin objs]
            ELSE [def |-> defined, bound |-> bound, ok |-> TmpUse(uses, objs, defined)]
    [] s.k = "ucall" ->
         \* the callee is traced in place: its intermediates live in the caller's state; the result is an intermediate written
         \* on every return path (the generator's callees with a result return on every path)
         LET r == TmpStmts(s.body, 1, objs, defined, bound) IN
         [def |-> IF s.ret = "" THEN r.def ELSE r.def \cup {s.ret}, bound |-> IF s.ret = "" THEN r.bound ELSE r.bound \cup {s.ret},
          ok |-> r.ok /\ TmpUse(ExprsNames(s.args, 1), objs, defined) /\ (s.ret = "" \/ (s.ret \notin r.bound /\ s.ret \notin objs))]
    [] s.k = "return" -> [def |-> defined, bound |-> bound, ok |-> s.has = 0 \/ TmpUse(ExprNames(s.e), objs, defined)]
    [] s.k = "await" -> [def |-> {}, bound |-> bound, ok |-> TRUE]   \* the condition is evaluated in the polling state
    [] s.k = "waitfor" -> [def |-> {}, bound |-> bound, ok |-> TmpUse(IF s.n.k = "int" THEN {} ELSE ExprNames(s.n), objs, defined)]
    [] s.k = "while" ->
         LET b == TmpStmts(s.body, 1, objs, {}, bound) IN [def |-> {}, bound |-> b.bound, ok |-> b.ok]
    [] OTHER -> [def |-> defined, bound |-> bound, ok |-> TRUE]

TmpStmts(ss, i, objs, defined, bound) ==
  IF i > Len(ss) THEN [def |-> defined, bound |-> bound, ok |-> TRUE]
  ELSE LET r == TmpStmt(ss[i], objs, defined, bound) IN
       IF ~r.ok THEN r ELSE TmpStmts(ss, i + 1, objs, r.def, r.bound)

\* an await's / loop's own condition may not use an intermediate of the previous state
RECURSIVE CondsOk(_, _, _, _)
CondsOk(ss, i, objs, defined) ==
  IF i > Len(ss) THEN TRUE
  ELSE LET s == ss[i]
           here == CASE s.k = "await" -> TmpUse(CondNames(s.c), objs, {})
                     [] s.k = "while" -> TmpUse(CondNames(s.c), objs, {}) /\ CondsOk(s.body, 1, objs, {})
                     [] s.k = "if" -> CondsOk(s.th, 1, objs, defined) /\ CondsOk(s.el, 1, objs, defined)
                     [] s.k = "match" -> CondsOk(s.default, 1, objs, defined) /\ \A j \in 1..Len(s.cases) : CondsOk(s.cases[j].body, 1, objs, defined)
                     [] s.k = "ucall" -> CondsOk(s.body, 1, objs, defined)
                     [] OTHER -> TRUE
       IN here /\ CondsOk(ss, i + 1, objs, defined)

TempsAccept(E) ==
  LET D == Summary(E)
      objs == DOMAIN D.kind
      \* a name bound with cohdl.always is concurrent logic, readable in every state like an object
      alw(c) == LET bs == AlwaysBinds(E.ctxs[c].body, 1) IN {bs[i].n : i \in 1..Len(bs)}
      bad == {c \in 1..Len(E.ctxs) : ~TmpStmts(E.ctxs[c].body, 1, objs \cup alw(c), {}, {}).ok \/ ~CondsOk(E.ctxs[c].body, 1, objs \cup alw(c), {})}
  IN IF bad = {} THEN "" ELSE "reject:intermediate value used where it is not defined on every path of the same state"

AcceptVerdict(E) == LET d == DriversAccept(E) IN IF d # "" THEN d ELSE TempsAccept(E)
=============================================================================
