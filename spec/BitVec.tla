------------------------------- MODULE BitVec -------------------------------
(***************************************************************************)
(* Three-valued bits and bit vectors shared by the VHDL semantics          *)
(* (VhdlSem) and the CoHDL source semantics (CoExpr / CoSem).              *)
(*                                                                         *)
(* A bit is 0, 1 or 2 (2 = the single unknown standing for 'U','X',...).   *)
(* A vector is a sequence of bits; index 1 is bit 0 (the least significant *)
(* bit, the right-most character of a VHDL string literal).                *)
(* TLC integers are 32 bit: conversions to Int are only used for widths    *)
(* <= 30; wider vectors use the bitwise (ripple) definitions.              *)
(***************************************************************************)
EXTENDS Naturals, Integers, Sequences

Bit3 == {0, 1, 2}
U == 2

Max(a, b) == IF a >= b THEN a ELSE b
Min(a, b) == IF a <= b THEN a ELSE b

Pow2(n) == 2 ^ n

Known(v) == \A i \in 1..Len(v) : v[i] # 2
AllU(w)  == [i \in 1..w |-> 2]
Zeros(w) == [i \in 1..w |-> 0]
Ones(w)  == [i \in 1..w |-> 1]

\* ---- three-valued logic (std_logic_1164 resolution tables collapsed to 0/1/unknown)
Not3(a)    == IF a = 0 THEN 1 ELSE IF a = 1 THEN 0 ELSE 2
And3(a, b) == IF a = 0 \/ b = 0 THEN 0 ELSE IF a = 1 /\ b = 1 THEN 1 ELSE 2
Or3(a, b)  == IF a = 1 \/ b = 1 THEN 1 ELSE IF a = 0 /\ b = 0 THEN 0 ELSE 2
Xor3(a, b) == IF a = 2 \/ b = 2 THEN 2 ELSE IF a = b THEN 0 ELSE 1

NotV(v)    == [i \in 1..Len(v) |-> Not3(v[i])]
AndV(a, b) == [i \in 1..Len(a) |-> And3(a[i], b[i])]
OrV(a, b)  == [i \in 1..Len(a) |-> Or3(a[i], b[i])]
XorV(a, b) == [i \in 1..Len(a) |-> Xor3(a[i], b[i])]

\* ---- numeric interpretation (vectors must be Known, width <= 30)
RECURSIVE ToNatFrom(_, _)
ToNatFrom(v, i) == IF i > Len(v) THEN 0 ELSE v[i] * Pow2(i - 1) + ToNatFrom(v, i + 1)
ToNat(v) == ToNatFrom(v, 1)

ToInt(v) == IF Len(v) = 0 THEN 0
            ELSE IF v[Len(v)] = 1 THEN ToNat(v) - Pow2(Len(v)) ELSE ToNat(v)

\* n mod 2^w as a w-bit vector; n may be negative (two's complement)
ModP(n, m) == n % m       \* TLC's % is the mathematical modulo for positive m
FromIntSmall(n, w) == LET m == ModP(n, Pow2(w)) IN [i \in 1..w |-> (m \div Pow2(i - 1)) % 2]
\* widths above 30 (TLC integers are 32 bit): the value (|n| < 2^29) is converted at 30 bits and extended
FromInt(n, w) == IF w <= 30 THEN FromIntSmall(n, w)
                 ELSE LET v == FromIntSmall(n, 30) IN [i \in 1..w |-> IF i <= 30 THEN v[i] ELSE IF n < 0 THEN 1 ELSE 0]

\* ---- extension / truncation
ZeroExt(v, w) == [i \in 1..w |-> IF i <= Len(v) THEN v[i] ELSE 0]
SignExt(v, w) == [i \in 1..w |-> IF i <= Len(v) THEN v[i] ELSE IF Len(v) = 0 THEN 0 ELSE v[Len(v)]]
Low(v, w)     == [i \in 1..w |-> v[i]]

\* numeric_std.resize
ResizeU(v, w) == IF w <= Len(v) THEN Low(v, w) ELSE ZeroExt(v, w)
\* signed resize keeps the sign bit and the w-1 right-most bits when narrowing
ResizeS(v, w) == IF w >= Len(v) THEN SignExt(v, w)
                 ELSE IF w = 0 THEN << >>
                 ELSE [i \in 1..w |-> IF i = w THEN v[Len(v)] ELSE v[i]]

\* ---- ripple arithmetic for wide vectors (no Int round trip)
RECURSIVE AddC(_, _, _, _)
\* result bits i..w of a+b+carry
AddC(a, b, c, i) ==
  IF i > Len(a) THEN << >>
  ELSE LET s == a[i] + b[i] + c IN << s % 2 >> \o AddC(a, b, s \div 2, i + 1)

AddV(a, b) == \* same length, both Known
  IF Len(a) <= 30 THEN FromInt(ToNat(a) + ToNat(b), Len(a)) ELSE AddC(a, b, 0, 1)
SubV(a, b) ==
  IF Len(a) <= 30 THEN FromInt(ToNat(a) - ToNat(b), Len(a)) ELSE AddC(a, NotV(b), 1, 1)
NegV(a) == SubV(Zeros(Len(a)), a)

\* ---- slices: Slice(v, hi, lo) with bit numbers (0-based)
Slice(v, hi, lo) == [i \in 1..(hi - lo + 1) |-> v[lo + i]]
SetSlice(v, hi, lo, x) == [i \in 1..Len(v) |-> IF i - 1 >= lo /\ i - 1 <= hi THEN x[i - lo] ELSE v[i]]

\* concatenation: left operand most significant
Concat(hiPart, loPart) == loPart \o hiPart

\* shifts on bit vectors
Shl(v, n) == [i \in 1..Len(v) |-> IF i - n >= 1 THEN v[i - n] ELSE 0]
ShrL(v, n) == [i \in 1..Len(v) |-> IF i + n <= Len(v) THEN v[i + n] ELSE 0]
ShrA(v, n) == [i \in 1..Len(v) |-> IF i + n <= Len(v) THEN v[i + n] ELSE v[Len(v)]]

\* truncated division / remainder on integers (b # 0)
AbsI(a) == IF a < 0 THEN -a ELSE a
TruncDiv(a, b) == LET q == AbsI(a) \div AbsI(b) IN IF (a < 0) # (b < 0) THEN -q ELSE q
TruncRem(a, b) == a - b * TruncDiv(a, b)             \* sign of the dividend
FloorMod(a, b) == LET r == TruncRem(a, b) IN         \* sign of the divisor
                  IF r # 0 /\ ((r < 0) # (b < 0)) THEN r + b ELSE r
=============================================================================
