-------------------------------- MODULE CoSem --------------------------------
(***************************************************************************)
(* What a CoHDL design means: contexts, assignment kinds, coroutines and   *)
(* reset (properties C01, C03, C04, C05).  A deep-embedded small-step      *)
(* semantics of the abstract design language (ADL) the generators emit;    *)
(* the same JSON object is pretty-printed to CoHDL source by               *)
(* harness/adl.py and interpreted here, so there is no second parser.      *)
(*                                                                         *)
(* Each clause cites the sentence of the property statement it encodes.    *)
(***************************************************************************)
EXTENDS CoExpr, TLC, FiniteSets

CNone == [k |-> "none"]
CIsNone(x) == x.k = "none"
CEmptyFn == [x \in {} |-> 0]
CSeqToSet(s) == {s[i] : i \in 1..Len(s)}

(* ------------------------------------------------------------------ *)
(* C05: conversion on assignment                                      *)
(* ------------------------------------------------------------------ *)
\* "Unsigned to an equal or wider Unsigned zero-extends, Signed to an equal or wider Signed
\*  sign-extends, Unsigned to a strictly wider Signed keeps the number, equal-width BitVector to or
\*  from Signed/Unsigned copies the bits unchanged, Bit/bool conversions map true to '1', Null/Full
\*  fill with zeros/ones, and integer literals must be representable in the target.  Narrowing,
\*  Signed<->Unsigned of equal width without an explicit view, any width-mismatched BitVector
\*  assignment and Bit<->vector assignments are compile-time errors"
\* `like` is any value of the target's type (kind and width)
RECURSIVE CConvert(_, _)
CConvert(val, like) ==
  IF CIsErr(val) THEN val
  \* literals: Python True/False are the integers 1/0; a bit string "101" is typed by its target
  \* ("integer literals must be representable in the target"; test_bit / test_bitvector construct from str)
  ELSE IF val.t = "pybool" THEN
       (IF like.t = "bool" THEN CV("bool", val.v) ELSE IF like.t = "bit" THEN CBit(val.v)
        ELSE IF like.t = "bv" THEN CErr("reject:bool to BitVector") ELSE CConvert(CInt(val.v), like))
  ELSE IF val.t = "str" THEN
       (IF like.t = "bit" THEN (IF Len(val.v) = 1 THEN CBit(val.v[1]) ELSE CErr("reject:string length"))
        ELSE IF like.t \in {"bv", "u", "s"} THEN (IF Len(val.v) = CWidth(like) THEN CV(like.t, val.v) ELSE CErr("reject:string length"))
        ELSE CErr("reject:string to " \o like.t))
  ELSE IF like.t = "u" THEN
       IF val.t = "u" THEN (IF CWidth(val) <= CWidth(like) THEN CV("u", ZeroExt(val.v, CWidth(like))) ELSE CErr("reject:narrowing"))
       ELSE IF val.t = "s" THEN CErr("reject:Signed to Unsigned without view")
       ELSE IF val.t = "bv" THEN (IF CWidth(val) = CWidth(like) THEN CV("u", val.v) ELSE CErr("reject:BitVector width mismatch"))
       ELSE IF val.t = "int" THEN (IF val.v >= 0 /\ (CWidth(like) >= 31 \/ val.v < Pow2(CWidth(like))) THEN CV("u", FromInt(val.v, CWidth(like))) ELSE CErr("reject:integer not representable"))
       ELSE IF val.t = "null" THEN CV("u", Zeros(CWidth(like)))
       ELSE IF val.t = "full" THEN CV("u", Ones(CWidth(like)))
       ELSE CErr("reject:" \o val.t \o " to Unsigned")
  ELSE IF like.t = "s" THEN
       IF val.t = "s" THEN (IF CWidth(val) <= CWidth(like) THEN CV("s", SignExt(val.v, CWidth(like))) ELSE CErr("reject:narrowing"))
       ELSE IF val.t = "u" THEN (IF CWidth(val) < CWidth(like) THEN CV("s", ZeroExt(val.v, CWidth(like))) ELSE CErr("reject:Unsigned to Signed needs a strictly wider target"))
       ELSE IF val.t = "bv" THEN (IF CWidth(val) = CWidth(like) THEN CV("s", val.v) ELSE CErr("reject:BitVector width mismatch"))
       ELSE IF val.t = "int" THEN (IF CWidth(like) >= 31 \/ (val.v >= -Pow2(CWidth(like) - 1) /\ val.v < Pow2(CWidth(like) - 1)) THEN CV("s", FromInt(val.v, CWidth(like))) ELSE CErr("reject:integer not representable"))
       ELSE IF val.t = "null" THEN CV("s", Zeros(CWidth(like)))
       ELSE IF val.t = "full" THEN CV("s", Ones(CWidth(like)))
       ELSE CErr("reject:" \o val.t \o " to Signed")
  ELSE IF like.t = "bv" THEN
       IF CIsVec(val) THEN (IF CWidth(val) = CWidth(like) THEN CV("bv", val.v) ELSE CErr("reject:BitVector width mismatch"))
       ELSE IF val.t = "null" THEN CV("bv", Zeros(CWidth(like)))
       ELSE IF val.t = "full" THEN CV("bv", Ones(CWidth(like)))
       ELSE CErr("reject:" \o val.t \o " to BitVector")
  ELSE IF like.t = "bit" THEN
       IF val.t = "bit" THEN val
       ELSE IF val.t = "bool" THEN CBit(val.v)
       ELSE IF val.t = "int" /\ val.v \in {0, 1} THEN CBit(val.v)
       ELSE IF val.t = "null" THEN CBit(0)
       ELSE IF val.t = "full" THEN CBit(1)
       ELSE CErr("reject:" \o val.t \o " to Bit")
  ELSE IF like.t = "bool" THEN
       IF val.t = "bool" THEN val
       ELSE IF val.t = "bit" THEN CV("bool", val.v)
       ELSE CErr("reject:" \o val.t \o " to bool")
  ELSE IF like.t = val.t THEN val
  ELSE CErr("reject:" \o val.t \o " to " \o like.t)

(* ------------------------------------------------------------------ *)
(* Stores and targets                                                 *)
(* loc = [cur, nxt, var, tmp, err]                                    *)
(*   cur : values every signal/port read sees in this activation       *)
(*   nxt : values scheduled for after the activation (signals)         *)
(*   var : variables (change immediately)   tmp : intermediates        *)
(* ------------------------------------------------------------------ *)
\* C03: "a signal assigned with <<= changes only after the activation (later reads in the same
\*  activation still see the old value) ... a variable assigned with @= changes immediately"
ReadEnv(loc) == loc.tmp @@ loc.var @@ loc.cur

UpdateAt(old, path, val, rd) ==
  \* new value of `old` after assigning val at path (at most one path element)
  IF Len(path) = 0 THEN CConvert(val, old)
  ELSE LET p == path[1] IN
       IF p.k = "view" THEN
            \* assignment through a typed view (.unsigned/.signed/.bitvector): the value is converted to
            \* the view's type (same width) and its bits are stored ("views alias the same storage")
            IF ~CIsVec(old) THEN CErr("reject:view target of " \o old.t)
            ELSE LET c == CConvert(val, CV(p.to, old.v)) IN
                 IF CIsErr(c) THEN c ELSE CV(old.t, c.v)
       ELSE IF p.k = "slice" THEN
            IF ~CIsVec(old) \/ p.lo < 0 \/ p.hi >= CWidth(old) THEN CErr("reject:slice target")
            ELSE LET c == CConvert(val, CV("bv", Slice(old.v, p.hi, p.lo))) IN
                 IF CIsErr(c) THEN c ELSE CV(old.t, SetSlice(old.v, p.hi, p.lo, c.v))
       ELSE LET i == IF p.k = "idx" THEN CInt(p.i) ELSE CEval(p.e, rd)
                n == IF CIsErr(i) THEN -1 ELSE IF i.t = "int" THEN i.v ELSE IF i.t = "u" /\ Known(i.v) THEN ToNat(i.v) ELSE -1
            IN IF CIsErr(i) THEN i
               ELSE IF CIsVec(old) THEN
                    IF n < 0 \/ n >= CWidth(old) THEN CErr("undefined")
                    ELSE LET c == CConvert(val, CBit(0)) IN
                         IF CIsErr(c) THEN c ELSE CV(old.t, [old.v EXCEPT ![n + 1] = c.v])
               ELSE IF old.t = "arr" THEN
                    IF n < 0 \/ n >= Len(old.v) THEN CErr("undefined")
                    ELSE LET c == CConvert(val, old.v[n + 1]) IN
                         IF CIsErr(c) THEN c ELSE CV("arr", [old.v EXCEPT ![n + 1] = c])
               ELSE CErr("reject:index target of " \o old.t)

\* D.kind : [object name -> "signal" | "variable" | "port_in" | "port_out"]
DoAssign(D, s, loc) ==
  LET rd == ReadEnv(loc)
      val == CEval(s.e, rd)
      o == s.t.obj
      kind == D.kind[o]
  IN
  IF CIsErr(val) THEN [loc EXCEPT !.err = val.v]
  ELSE IF kind = "port_in" THEN [loc EXCEPT !.err = "reject:write to input port"]
  ELSE IF s.mode = "value" THEN
       \* "@=": immediate, variables only
       IF kind # "variable" THEN [loc EXCEPT !.err = "reject:@= on a signal"]
       ELSE LET new == UpdateAt(loc.var[o], s.t.path, val, rd) IN
            IF CIsErr(new) THEN [loc EXCEPT !.err = new.v] ELSE [loc EXCEPT !.var[o] = new]
  ELSE IF kind = "variable" THEN [loc EXCEPT !.err = "reject:<<= or ^= on a variable"]
  ELSE \* "<<=" (next) and "^=" (push): the last assignment executed wins
       LET base == IF o \in DOMAIN loc.nxt THEN loc.nxt[o] ELSE loc.cur[o]
           new == UpdateAt(base, s.t.path, val, rd)
       IN IF CIsErr(new) THEN [loc EXCEPT !.err = new.v]
          ELSE [loc EXCEPT !.nxt = (o :> new) @@ @]

(* ------------------------------------------------------------------ *)
(* C01: coroutines as continuations                                   *)
(* frames: [k |-> "seq", ss, i]  statements ss from index i            *)
(*         [k |-> "loop", w]     marks the end of a while body         *)
(*         [k |-> "head", w]     evaluate the loop condition           *)
(*         [k |-> "poll", c]     a suspended await                     *)
(*         [k |-> "halt"]        await false                           *)
(* ------------------------------------------------------------------ *)
SeqFrame(ss) == [k |-> "seq", ss |-> ss, i |-> 1]

RECURSIVE PopToLoop(_)
\* frames after the innermost enclosing loop marker, and that marker
PopToLoop(K) ==
  IF K = << >> THEN [found |-> FALSE, w |-> CNone, rest |-> << >>]
  ELSE IF Head(K).k = "loop" THEN [found |-> TRUE, w |-> Head(K).w, rest |-> Tail(K)]
  ELSE IF Head(K).k = "fn" THEN [found |-> FALSE, w |-> CNone, rest |-> << >>]     \* a loop of the caller is not visible in the callee
  ELSE PopToLoop(Tail(K))

RECURSIVE PopToFn(_)
\* the frames after the marker of the innermost active call, and the name its result is bound to
PopToFn(K) ==
  IF K = << >> THEN [found |-> FALSE, ret |-> "", rest |-> << >>]
  ELSE IF Head(K).k = "fn" THEN [found |-> TRUE, ret |-> Head(K).ret, rest |-> Tail(K)]
  ELSE PopToFn(Tail(K))

CondHolds(c, loc) == \* -> "t" | "f" | error text
  IF c.k = "true" THEN "t" ELSE IF c.k = "false" THEN "f"
  ELSE LET v == CEval(c, ReadEnv(loc)) IN
       IF CIsErr(v) THEN v.v ELSE IF CTruth(v) THEN "t" ELSE "f"

RECURSIVE Run(_, _, _, _, _)
\* -> [K, loc]: the continuation at the next suspension point (<< >> = finished)
\* atStart: no statement with an effect or a computed intermediate has run since the top of the body
Run(D, K, loc, atStart, fuel) ==
  IF loc.err # "" THEN [K |-> K, loc |-> loc]
  ELSE IF fuel = 0 THEN [K |-> K, loc |-> [loc EXCEPT !.err = "spec:out of fuel (unbounded zero-time loop)"]]
  ELSE IF K = << >> THEN [K |-> K, loc |-> loc]        \* "a finished coroutine restarts on the next clock"
  ELSE
  LET f == Head(K) rest == Tail(K) IN
  CASE f.k = "seq" ->
         IF f.i > Len(f.ss) THEN Run(D, rest, loc, atStart, fuel - 1)
         ELSE
         LET s == f.ss[f.i]
             K1 == <<[f EXCEPT !.i = @ + 1]>> \o rest
         IN
         CASE s.k = "assign" -> Run(D, K1, DoAssign(D, s, loc), FALSE, fuel - 1)   \* "statements run in program order"
           [] s.k = "local" ->
                \* a Signal constructed inside a sequential context (_type_qualifier.pyi, Signal.__init__): "By default these
                \* initializations are NOT the same as a signal assignment. Instead initialization takes place immediately like
                \* variable assignment.  When delayed_init is set to true initialization behaves like a signal assignment and
                \* takes one clock cycle."  Either way the signal holds the value after the activation.
                LET v == CConvert(CEval(s.init, ReadEnv(loc)), D.dflt[s.n]) IN
                IF CIsErr(v) THEN [K |-> K, loc |-> [loc EXCEPT !.err = v.v]]
                ELSE Run(D, K1, [loc EXCEPT !.nxt = (s.n :> v) @@ @,
                                            !.tmp = IF s.delayed = 1 THEN @ ELSE (s.n :> v) @@ @], FALSE, fuel - 1)
           [] s.k = "comment" -> Run(D, K1, loc, atStart, fuel - 1)     \* no effect, not an action
           \* `n = cohdl.always(E)`: concurrent logic; n is bound for the whole context (see AlwaysBinds), nothing is executed here
           [] s.k = "always" -> Run(D, K1, loc, atStart, fuel - 1)
           \* a documented precondition of a library component, stated in a reference description: inputs that violate it are
           \* outside the property (the step is "undefined" and not compared)
           [] s.k = "assume" -> LET c == CondHolds(s.c, loc) IN
                                IF c = "t" THEN Run(D, K1, loc, atStart, fuel - 1)
                                ELSE [K |-> K, loc |-> [loc EXCEPT !.err = IF c = "f" THEN "undefined" ELSE c]]
           [] s.k = "bind" ->
                LET v == CEval(s.e, ReadEnv(loc)) IN
                IF CIsErr(v) THEN [K |-> K, loc |-> [loc EXCEPT !.err = v.v]]
                ELSE Run(D, K1, [loc EXCEPT !.tmp = (s.n :> v) @@ @], FALSE, fuel - 1)
           [] s.k = "if" ->
                \* "Conditional constructs execute exactly the first branch whose condition holds, or the default"
                LET c == CondHolds(s.c, loc) IN
                IF c \notin {"t", "f"} THEN [K |-> K, loc |-> [loc EXCEPT !.err = c]]
                ELSE Run(D, <<SeqFrame(IF c = "t" THEN s.th ELSE s.el)>> \o K1, loc, FALSE, fuel - 1)
           [] s.k = "match" ->
                \* C03: "Conditional constructs (if/elif/else, match, for-loops ending in break or return, for-else) execute
                \*  exactly the first branch whose condition holds, or the default."
                LET sel == CEval(s.e, ReadEnv(loc))
                    eqv(i) == CCompare("eq", sel, CEval(s.cases[i].v, ReadEnv(loc)))
                    bad == {i \in 1..Len(s.cases) : CIsErr(eqv(i))}
                    hits == {i \in 1..Len(s.cases) : ~CIsErr(eqv(i)) /\ eqv(i).v = 1}
                IN IF CIsErr(sel) THEN [K |-> K, loc |-> [loc EXCEPT !.err = sel.v]]
                   ELSE IF bad # {} THEN [K |-> K, loc |-> [loc EXCEPT !.err = eqv(CHOOSE i \in bad : TRUE).v]]
                   ELSE IF hits # {} THEN Run(D, <<SeqFrame(s.cases[CHOOSE i \in hits : \A j \in hits : i <= j].body)>> \o K1, loc, FALSE, fuel - 1)
                   ELSE Run(D, <<SeqFrame(s.default)>> \o K1, loc, FALSE, fuel - 1)       \* `case _` (empty when absent)
           [] s.k = "forchain" ->
                \* for c, v in zip(conds, vals): if c: T <<= v; break   else: T <<= else_val
                LET cs == [i \in 1..Len(s.conds) |-> CondHolds(s.conds[i], loc)]
                    bad == {i \in 1..Len(cs) : cs[i] \notin {"t", "f"}}
                    hits == {i \in 1..Len(cs) : cs[i] = "t"}
                    \* the loop body is one assignment (or, mode "bind", the definition of an intermediate value)
                    body(e) == IF s.mode = "bind" THEN [k |-> "bind", n |-> s.t.obj, e |-> e]
                               ELSE [k |-> "assign", mode |-> s.mode, t |-> s.t, e |-> e, form |-> "op"]
                IN IF bad # {} THEN [K |-> K, loc |-> [loc EXCEPT !.err = cs[CHOOSE i \in bad : TRUE]]]
                   ELSE IF hits # {} THEN Run(D, <<SeqFrame(<<body(s.bes[CHOOSE i \in hits : \A j \in hits : i <= j])>>)>> \o K1, loc, FALSE, fuel - 1)
                   ELSE IF s.haselse = 1 THEN Run(D, <<SeqFrame(<<body(s.elseval)>>)>> \o K1, loc, FALSE, fuel - 1)
                   ELSE Run(D, K1, loc, FALSE, fuel - 1)
           [] s.k = "await" ->
                \* "an await polls its condition once per clock starting the clock after it is reached
                \*  (immediately if it is the very first action of the process)"
                IF atStart THEN Run(D, <<[k |-> "poll", c |-> s.c]>> \o K1, loc, TRUE, fuel - 1)
                ELSE [K |-> <<[k |-> "poll", c |-> s.c]>> \o K1, loc |-> loc]
           [] s.k = "while" ->
                \* "a loop ... entry costs one clock" (none when it is the very first action)
                IF atStart THEN Run(D, <<[k |-> "head", w |-> s]>> \o K1, loc, TRUE, fuel - 1)
                ELSE [K |-> <<[k |-> "head", w |-> s]>> \o K1, loc |-> loc]
           [] s.k = "waitfor" ->
                \* C16: "std.wait_for(n) and Waiter.wait_for(n) resume exactly n clock steps after they are reached
                \*  for every n>=1, constant or run-time (n=0 only with allow_zero, resuming in the same step)"
                LET nv == IF s.n.k = "int" THEN CInt(s.n.v) ELSE CEval(s.n, ReadEnv(loc))
                    n == IF CIsErr(nv) THEN -1 ELSE IF nv.t = "int" THEN nv.v ELSE IF nv.t = "u" /\ Known(nv.v) THEN ToNat(nv.v) ELSE -1
                IN IF CIsErr(nv) THEN [K |-> K, loc |-> [loc EXCEPT !.err = nv.v]]
                   ELSE IF n < 0 THEN [K |-> K, loc |-> [loc EXCEPT !.err = "undefined"]]
                   ELSE IF n = 0 THEN (IF s.allow_zero = 1 THEN Run(D, K1, loc, FALSE, fuel - 1)
                                       ELSE [K |-> K, loc |-> [loc EXCEPT !.err = "undefined"]])   \* precondition violated
                   ELSE [K |-> <<[k |-> "wait", left |-> n]>> \o K1, loc |-> loc]
           [] s.k = "ucall" ->
                \* a call of a function / an awaited sub-coroutine defined in the design: the callee's body runs in place, with
                \* its parameters bound to the argument objects (s.body is the body with that binding applied, adl.ucall);
                \* entering and leaving cost no clock, so an await at the start of a callee that is the very first action still
                \* polls immediately
                Run(D, <<SeqFrame(s.body), [k |-> "fn", ret |-> s.ret]>> \o K1, loc, atStart, fuel - 1)
           [] s.k = "return" ->     \* "continue/break/return cost none": ends the innermost call, from any depth of loops / branches
                LET v == IF s.has = 1 THEN CEval(s.e, ReadEnv(loc)) ELSE CNone
                    p == PopToFn(K1)
                IN IF ~p.found THEN [K |-> K, loc |-> [loc EXCEPT !.err = "reject:return outside function"]]
                   ELSE IF s.has = 1 /\ CIsErr(v) THEN [K |-> K, loc |-> [loc EXCEPT !.err = v.v]]
                   ELSE Run(D, p.rest, IF p.ret # "" /\ s.has = 1 THEN [loc EXCEPT !.tmp = (p.ret :> v) @@ @] ELSE loc, FALSE, fuel - 1)
           [] s.k = "break" ->      \* "continue/break/return cost none"
                LET p == PopToLoop(K1) IN
                IF ~p.found THEN [K |-> K, loc |-> [loc EXCEPT !.err = "reject:break outside loop"]]
                ELSE Run(D, p.rest, loc, FALSE, fuel - 1)
           [] s.k = "continue" ->
                LET p == PopToLoop(K1) IN
                IF ~p.found THEN [K |-> K, loc |-> [loc EXCEPT !.err = "reject:continue outside loop"]]
                ELSE Run(D, <<[k |-> "head", w |-> p.w]>> \o p.rest, loc, FALSE, fuel - 1)
           [] OTHER -> [K |-> K, loc |-> [loc EXCEPT !.err = "reject:statement kind " \o s.k]]
    [] f.k = "head" ->
         LET c == CondHolds(f.w.c, loc) IN
         IF c \notin {"t", "f"} THEN [K |-> K, loc |-> [loc EXCEPT !.err = c]]
         ELSE IF c = "t" THEN Run(D, <<SeqFrame(f.w.body), [k |-> "loop", w |-> f.w]>> \o rest, loc, FALSE, fuel - 1)
         ELSE Run(D, rest, loc, FALSE, fuel - 1)
    [] f.k = "fn" -> Run(D, rest, loc, atStart, fuel - 1)      \* the callee's body ended without a return statement
    [] f.k = "loop" ->   \* "a loop back-edge ... costs one clock"
         [K |-> <<[k |-> "head", w |-> f.w]>> \o rest, loc |-> loc]
    [] f.k = "poll" ->
         LET c == CondHolds(f.c, loc) IN
         IF c \notin {"t", "f"} THEN [K |-> K, loc |-> [loc EXCEPT !.err = c]]
         \* a first-action await that is satisfied at once has consumed neither a clock nor executed a
         \* statement with an effect: what follows is still "the very first action" (reading fixed in
         \* DESIGN.md A.4: first action = no statement with an effect or a computed value precedes it)
         \* (only the literal `await true`: polling a real condition is a computed test, like an `if`)
         ELSE IF c = "t" THEN Run(D, rest, loc, atStart /\ f.c.k = "true", fuel - 1)
         ELSE [K |-> K, loc |-> loc]
    [] f.k = "wait" ->
         IF f.left = 1 THEN Run(D, rest, loc, FALSE, fuel - 1)
         ELSE [K |-> <<[f EXCEPT !.left = @ - 1]>> \o rest, loc |-> loc]
    [] f.k = "halt" -> [K |-> K, loc |-> loc]

(* ------------------------------------------------------------------ *)
(* Static facts of a design                                           *)
(* ------------------------------------------------------------------ *)
RECURSIVE StmtTargets(_, _), StmtsTargets(_, _, _)
\* objects assigned with one of the given modes
StmtTargets(s, modes) ==
  CASE s.k = "assign" -> IF s.mode \in modes THEN {s.t.obj} ELSE {}
    [] s.k = "local" -> IF "next" \in modes THEN {s.n} ELSE {}
    [] s.k = "ucall" -> StmtsTargets(s.body, 1, modes)
    [] s.k = "forchain" -> IF s.mode \in modes THEN {s.t.obj} ELSE {}      \* mode "bind" defines an intermediate, no object
    [] s.k = "match" -> StmtsTargets(s.default, 1, modes) \cup UNION {StmtsTargets(s.cases[i].body, 1, modes) : i \in 1..Len(s.cases)}
    [] s.k = "if" -> StmtsTargets(s.th, 1, modes) \cup StmtsTargets(s.el, 1, modes)
    [] s.k = "while" -> StmtsTargets(s.body, 1, modes)
    [] OTHER -> {}
StmtsTargets(ss, i, modes) == IF i > Len(ss) THEN {} ELSE StmtTargets(ss[i], modes) \cup StmtsTargets(ss, i + 1, modes)

(* ------------------------------------------------------------------ *)
(* `with cohdl.always:` blocks                                        *)
(* ------------------------------------------------------------------ *)
\* "To implement more than one concurrent statement, cohdl.always is [used as a context manager]": the statements of the
\* block are concurrent logic of their own - they drive their targets continuously, are not part of the enclosing process
\* (not reset with it, not gated by its clock or by the branch they are written in).  A design is read with every such
\* block moved into a concurrent context of its own.
RECURSIVE StripAlways(_, _), AlwaysBlocks(_, _)
StripAlways(ss, i) ==
  IF i > Len(ss) THEN << >>
  ELSE LET s == ss[i]
           here == CASE s.k = "alwaysblock" -> << >>
                     [] s.k = "if" -> <<[s EXCEPT !.th = StripAlways(s.th, 1), !.el = StripAlways(s.el, 1)]>>
                     [] s.k = "while" -> <<[s EXCEPT !.body = StripAlways(s.body, 1)]>>
                     [] OTHER -> <<s>>
       IN here \o StripAlways(ss, i + 1)
AlwaysBlocks(ss, i) ==
  IF i > Len(ss) THEN << >>
  ELSE LET s == ss[i]
           here == CASE s.k = "alwaysblock" -> <<s.body>>
                     [] s.k = "if" -> AlwaysBlocks(s.th, 1) \o AlwaysBlocks(s.el, 1)
                     [] s.k = "while" -> AlwaysBlocks(s.body, 1)
                     [] OTHER -> << >>
       IN here \o AlwaysBlocks(ss, i + 1)

RECURSIVE ExpandCtxs(_, _)
ExpandCtxs(cs, i) ==
  IF i > Len(cs) THEN << >>
  ELSE LET c == cs[i]
           blocks == IF c.kind = "seq" THEN AlwaysBlocks(c.body, 1) ELSE << >>
       IN <<IF c.kind = "seq" THEN [c EXCEPT !.body = StripAlways(c.body, 1)] ELSE c>>
          \o [j \in 1..Len(blocks) |-> [kind |-> "conc", name |-> "always", body |-> blocks[j], clk |-> "", reset |-> [k |-> "none"],
                                         coroutine |-> 0, step |-> [k |-> "none"], edge |-> ""]]
          \o ExpandCtxs(cs, i + 1)
ExpandAlways(E) == [E EXCEPT !.ctxs = ExpandCtxs(E.ctxs, 1)]

\* design summary computed once
Summary(E) ==
  LET objs == E.objs
      ports == E.ports
      names == {objs[i].n : i \in 1..Len(objs)} \cup {ports[i].n : i \in 1..Len(ports)}
      decl(n) == IF \E i \in 1..Len(objs) : objs[i].n = n THEN objs[CHOOSE i \in 1..Len(objs) : objs[i].n = n]
                 ELSE ports[CHOOSE i \in 1..Len(ports) : ports[i].n = n]
  IN [kind |-> [n \in names |->
                  IF \E i \in 1..Len(objs) : objs[i].n = n THEN objs[CHOOSE i \in 1..Len(objs) : objs[i].n = n].q
                  ELSE IF decl(n).dir = "in" THEN "port_in" ELSE "port_out"],
      dflt |-> [n \in names |-> IF decl(n).hasdefault = 1 THEN CLit(decl(n).ty, decl(n).default) ELSE
                                 \* no default: the value is unspecified until first assigned
                                 CUnknown(decl(n).ty)],
      hasdflt |-> [n \in names |-> decl(n).hasdefault = 1],
      noreset |-> [n \in names |-> decl(n).noreset = 1],
      inputs |-> {ports[i].n : i \in {j \in 1..Len(ports) : ports[j].dir = "in"}},
      outputs |-> {ports[i].n : i \in {j \in 1..Len(ports) : ports[j].dir = "out"}},
      state |-> names \ {ports[i].n : i \in {j \in 1..Len(ports) : ports[j].dir = "in"}}]

(* ------------------------------------------------------------------ *)
(* Contexts                                                           *)
(* spec state  st = [obj, k, err]   k : [ctx index -> continuation]    *)
(* ------------------------------------------------------------------ *)
SpecInit(E, D) ==
  [obj |-> [n \in D.state |-> D.dflt[n]],
   k |-> [c \in 1..Len(E.ctxs) |-> << >>],
   err |-> ""]

OnReset(ctx) == IF "onreset" \in DOMAIN ctx THEN ctx.onreset ELSE << >>

ResetActive(ctx, rd) ==
  IF CIsNone(ctx.reset) THEN FALSE
  ELSE LET r == rd[ctx.reset.port] IN
       IF ctx.reset.active_low = 1 THEN r.v = 0 ELSE r.v = 1

\* one activation of sequential context c with the given (old) values -> [nxt, var, K, err]
\* C03: "any expression hoisted with `cohdl.always` out of a sequential context continuously drives its targets with the
\*  current value of its operands": the name stands for the value of the expression over the CURRENT signal values in every
\* activation and every state of the context, whether or not the statement that introduced it was on the executed path
RECURSIVE AlwaysBinds(_, _)
AlwaysBinds(ss, i) ==
  IF i > Len(ss) THEN << >>
  ELSE LET s == ss[i]
           here == CASE s.k = "always" -> <<[n |-> s.n, e |-> s.e]>>
                     [] s.k = "if" -> AlwaysBinds(s.th, 1) \o AlwaysBinds(s.el, 1)
                     [] s.k = "while" -> AlwaysBinds(s.body, 1)
                     [] s.k = "ucall" -> AlwaysBinds(s.body, 1)
                     [] OTHER -> << >>
       IN here \o AlwaysBinds(ss, i + 1)
AlwaysEnv(ctx, cur) ==
  LET bs == AlwaysBinds(ctx.body, 1) IN
  [n \in {bs[i].n : i \in 1..Len(bs)} |-> CEval(bs[CHOOSE i \in 1..Len(bs) : bs[i].n = n].e, cur)]

ActivateSeq(E, D, c, st, cur) ==
  LET ctx == E.ctxs[c]
      all == ctx.body \o OnReset(ctx)                       \* the registered on_reset actions belong to the same process
      written == StmtsTargets(all, 1, {"next", "value", "push"})
      pushed == StmtsTargets(all, 1, {"push"})
      vars == {n \in written : D.kind[n] = "variable"}
  IN
  IF ResetActive(ctx, cur) THEN
       \* C04: "every signal and variable driven by that context that has a default value and is not
       \*  marked noreset takes its default, an embedded coroutine returns to its first state ...
       \*  and nothing else in the context executes while reset is active"
       \* "... and registered on_reset actions run, irrespective of the state the process was in": after the defaults
       \* have been applied (std/_context.py: `cohdl.reset_context()` then the actions, in registration order)
       LET rs == {n \in written : D.hasdflt[n] /\ ~D.noreset[n]}
           dfl == [n \in rs |-> D.dflt[n]]
           loc0 == [cur |-> cur, nxt |-> [n \in {x \in rs : D.kind[x] # "variable"} |-> dfl[n]],
                    var |-> [n \in vars |-> IF n \in rs THEN dfl[n] ELSE cur[n]], tmp |-> AlwaysEnv(ctx, cur), err |-> ""]
           r == Run(D, <<SeqFrame(OnReset(ctx))>>, loc0, FALSE, 200)
       IN IF OnReset(ctx) = << >> THEN [upd |-> dfl, K |-> << >>, err |-> ""]
          ELSE [upd |-> r.loc.nxt @@ r.loc.var, K |-> << >>, err |-> r.loc.err]
  ELSE IF ~CIsNone(ctx.step) /\ CondHolds(ctx.step, [cur |-> cur, var |-> CEmptyFn, tmp |-> CEmptyFn]) # "t" THEN
       \* a context with a step condition (clock enable) is activated only on clocks where it holds;
       \* a disabled clock changes nothing (the reset above is not gated by it: C04 "whenever the reset
       \* ... is active (at the active clock edge for synchronous resets ...)")
       LET c0 == CondHolds(ctx.step, [cur |-> cur, var |-> CEmptyFn, tmp |-> CEmptyFn]) IN
       [upd |-> CEmptyFn, K |-> st.k[c], err |-> IF c0 = "f" THEN "" ELSE c0]
  ELSE
  LET \* C03: "a signal assigned with ^= carries the pushed value for exactly one step and its
      \*  default in every step in which it is not pushed"
      nxt0 == [n \in pushed |-> D.dflt[n]]
      loc0 == [cur |-> cur, nxt |-> nxt0, var |-> [n \in vars |-> cur[n]], tmp |-> AlwaysEnv(ctx, cur), err |-> ""]
      fresh == st.k[c] = << >>
      K0 == IF fresh THEN <<SeqFrame(ctx.body)>> ELSE st.k[c]
      r == Run(D, K0, loc0, fresh, 200)
  IN [upd |-> r.loc.nxt @@ r.loc.var, K |-> r.K, err |-> r.loc.err]

\* concurrent context: "continuously drives its targets with the current value of its operands"
RECURSIVE SettleConc(_, _, _, _)
SettleConc(E, D, obj, n) ==
  LET concs == {c \in 1..Len(E.ctxs) : E.ctxs[c].kind = "conc"}
      step(c) == LET loc0 == [cur |-> obj, nxt |-> CEmptyFn, var |-> CEmptyFn, tmp |-> CEmptyFn, err |-> ""]
                     r == Run(D, <<SeqFrame(E.ctxs[c].body)>>, loc0, FALSE, 200)
                 IN [upd |-> r.loc.nxt, err |-> r.loc.err]
      rs == [c \in concs |-> step(c)]
      bad == {c \in concs : rs[c].err # ""}
      \* every concurrent context drives disjoint targets (C07), so the order of merging is irrelevant
      RECURSIVE Merge(_, _)
      Merge(S, acc) == IF S = {} THEN acc ELSE LET c == CHOOSE x \in S : TRUE IN Merge(S \ {c}, rs[c].upd @@ acc)
      new == Merge(concs, CEmptyFn) @@ obj
  IN IF bad # {} THEN [obj |-> obj, err |-> rs[CHOOSE c \in bad : TRUE].err]
     ELSE IF new = obj THEN [obj |-> obj, err |-> ""]
     ELSE IF n = 0 THEN [obj |-> obj, err |-> "spec:combinational loop"]
     ELSE SettleConc(E, D, new, n - 1)

\* one clock step: every sequential context whose clock ticks is activated against the same old
\* values, the updates are committed together, then the concurrent contexts settle.
\* inp : [input port -> value];  clk : name of the ticking clock port
\* one edge of clock clk: the sequential contexts sensitive to that edge
EdgeStep(E, D, st, inp, clk, edge) ==
  LET \* values visible at the edge: inputs and the (settled) state before the edge
      pre == SettleConc(E, D, inp @@ st.obj, 8)
      cur == pre.obj
      seqs == {c \in 1..Len(E.ctxs) : E.ctxs[c].kind = "seq" /\ E.ctxs[c].clk = clk /\ E.ctxs[c].edge \in {edge, "both"}}
      rs == [c \in seqs |-> ActivateSeq(E, D, c, st, cur)]
      bad == {c \in seqs : rs[c].err # ""}
      RECURSIVE Merge(_, _)
      Merge(S, acc) == IF S = {} THEN acc ELSE LET c == CHOOSE x \in S : TRUE IN Merge(S \ {c}, rs[c].upd @@ acc)
      committed == Merge(seqs, CEmptyFn) @@ cur
      post == SettleConc(E, D, committed, 8)
  IN IF pre.err # "" THEN [st EXCEPT !.err = pre.err]
     ELSE IF bad # {} THEN [st EXCEPT !.err = rs[CHOOSE c \in bad : TRUE].err]
     ELSE IF post.err # "" THEN [st EXCEPT !.err = post.err]
     ELSE [obj |-> [n \in D.state |-> post.obj[n]],
           k |-> [c \in 1..Len(E.ctxs) |-> IF c \in seqs THEN rs[c].K ELSE st.k[c]],
           err |-> ""]

\* one clock period (rising edge, then falling edge) with the data inputs held
SpecStep(E, D, st, inp, clk) ==
  LET s1 == EdgeStep(E, D, st, inp, clk, "rising")
      anyFalling == \E c \in 1..Len(E.ctxs) : E.ctxs[c].kind = "seq" /\ E.ctxs[c].clk = clk /\ E.ctxs[c].edge \in {"falling", "both"}
  IN IF s1.err # "" \/ ~anyFalling THEN s1 ELSE EdgeStep(E, D, s1, inp, clk, "falling")

\* inputs change without a clock edge: asynchronous resets act, concurrent contexts follow
SpecAsync(E, D, st, inp) ==
  LET cur == inp @@ st.obj
      seqs == {c \in 1..Len(E.ctxs) : E.ctxs[c].kind = "seq" /\ ~CIsNone(E.ctxs[c].reset)
                                       /\ E.ctxs[c].reset.async = 1 /\ ResetActive(E.ctxs[c], cur)}
      rs == [c \in seqs |-> ActivateSeq(E, D, c, st, cur)]
      RECURSIVE Merge(_, _)
      Merge(S, acc) == IF S = {} THEN acc ELSE LET c == CHOOSE x \in S : TRUE IN Merge(S \ {c}, rs[c].upd @@ acc)
      post == SettleConc(E, D, Merge(seqs, CEmptyFn) @@ cur, 8)
  IN IF post.err # "" THEN [st EXCEPT !.err = post.err]
     ELSE [obj |-> [n \in D.state |-> post.obj[n]],
           k |-> [c \in 1..Len(E.ctxs) |-> IF c \in seqs THEN << >> ELSE st.k[c]],
           err |-> ""]
=============================================================================
