---------------------------- MODULE CompilerState ----------------------------
(***************************************************************************)
(* C11: "The VHDL produced for a design is a function of that design       *)
(* alone: compiling it repeatedly, in a fresh interpreter under any hash   *)
(* seed, or after any sequence of other successful or rejected             *)
(* compilations in the same interpreter yields byte-identical output.  A   *)
(* rejected design never prevents, alters or corrupts a later compilation."*)
(*                                                                         *)
(* Abstract state of one interpreter: the history of compilations and the  *)
(* compiler's module-level scratch state, which every compilation -        *)
(* accepted or rejected at whatever stage - must leave as it found it.     *)
(* The intended design is deterministic: Result(d) depends on d only.      *)
(***************************************************************************)
EXTENDS Naturals, Sequences, TLC

CONSTANTS Accepted, Rejected, MaxLen
Alphabet == Accepted \cup Rejected

VARIABLES hist, scratch, outs
vars == <<hist, scratch, outs>>

Init == hist = << >> /\ scratch = "at-rest" /\ outs = << >>

\* the intended compiler: a pure function of the design
Result(d) == IF d \in Accepted THEN <<"text-of", d>> ELSE <<"error-of", d>>

Compile(d) ==
  /\ Len(hist) < MaxLen
  /\ hist' = Append(hist, d)
  /\ scratch' = "at-rest"          \* every exit path restores the scratch state
  /\ outs' = Append(outs, Result(d))

Next == \E d \in Alphabet : Compile(d)
Spec == Init /\ [][Next]_vars

AtRest == scratch = "at-rest"
Pure == \A i, j \in 1..Len(hist) : hist[i] = hist[j] => outs[i] = outs[j]
=============================================================================
