-------------------------------- MODULE Fixed --------------------------------
(***************************************************************************)
(* C19: fixed-point arithmetic is exact and resize follows the selected    *)
(* styles.  A value of format [l:r] (l >= r) with raw integer n stands for *)
(* the rational n * 2^r; SFixed raws are two's complement in l-r+1 bits,   *)
(* UFixed raws are naturals.  Rationals are compared after scaling to a    *)
(* common power of two (all integers stay far below 2^31).                 *)
(***************************************************************************)
EXTENDS Integers, Sequences

P2(n) == 2 ^ n
Width(l, r) == l - r + 1
\* scale raw (at exponent r) to exponent base <= r
Scale(raw, r, base) == raw * P2(r - base)
MinI(a, b) == IF a <= b THEN a ELSE b
MaxI(a, b) == IF a >= b THEN a ELSE b

MinRaw(signed, l, r) == IF signed THEN -P2(Width(l, r) - 1) ELSE 0
MaxRaw(signed, l, r) == IF signed THEN P2(Width(l, r) - 1) - 1 ELSE P2(Width(l, r)) - 1

\* "wrapped modulo the target range"
WrapRaw(signed, n, l, r) ==
  LET m == P2(Width(l, r)) IN
  IF signed THEN ((n + P2(Width(l, r) - 1)) % m) - P2(Width(l, r) - 1) ELSE n % m
\* "or saturated to its bounds"
SatRaw(signed, n, l, r) ==
  IF n < MinRaw(signed, l, r) THEN MinRaw(signed, l, r) ELSE IF n > MaxRaw(signed, l, r) THEN MaxRaw(signed, l, r) ELSE n

\* floor division for possibly negative numerators, positive d ("truncated toward minus infinity")
FloorDiv(n, d) == IF n >= 0 THEN n \div d ELSE -((-n + d - 1) \div d)

\* "rounded to nearest with ties to even"
RoundHalfEven(n, d) ==
  LET q == FloorDiv(n, d)
      rem == n - q * d
  IN IF 2 * rem < d THEN q ELSE IF 2 * rem > d THEN q + 1 ELSE IF q % 2 = 0 THEN q ELSE q + 1

\* resize to [l2:r2]: "truncated toward minus infinity or rounded to nearest with ties to even as selected, and then
\* wrapped modulo the target range or saturated to its bounds as selected, including when rounding itself carries out"
Resize(signed, raw, r1, l2, r2, round, saturate) ==
  LET shifted == IF r2 <= r1 THEN raw * P2(r1 - r2)
                 ELSE IF round THEN RoundHalfEven(raw, P2(r2 - r1)) ELSE FloorDiv(raw, P2(r2 - r1))
  IN IF saturate THEN SatRaw(signed, shifted, l2, r2) ELSE WrapRaw(signed, shifted, l2, r2)

\* exact results, scaled to exponent `base`
AddExact(ra, a, rb, b, base) == Scale(ra, a, base) + Scale(rb, b, base)
SubExact(ra, a, rb, b, base) == Scale(ra, a, base) - Scale(rb, b, base)
MulExact(ra, a, rb, b) == ra * rb                    \* at exponent a + b

\* ---- one recorded / observed operation against the definitions above
\* c = <<op, signed(0/1), l1, r1, raw1, l2, r2, raw2, p1, p2, lo, ro, rawo>>
\*  add/sub/mul: operand 2 = second operand;  resize: l2:r2 = target format, p1 = round (0/1), p2 = saturate (0/1);
\*  eq: rawo = 1/0;  conv: operand 1 converted to format l2:r2
CaseOk(c) ==
  LET op == c[1] sg == c[2] = 1
      l1 == c[3] r1 == c[4] n1 == c[5] l2 == c[6] r2 == c[7] n2 == c[8]
      lo == c[11] ro == c[12] no == c[13]
      base == MinI(MinI(r1, r2), ro)
      inRange == no >= MinRaw(sg, lo, ro) /\ no <= MaxRaw(sg, lo, ro)
  IN
  CASE op = "add" -> inRange /\ Scale(no, ro, base) = AddExact(n1, r1, n2, r2, base)
    [] op = "sub" ->
         LET exact == SubExact(n1, r1, n2, r2, base) IN
         IF sg \/ exact >= 0 THEN inRange /\ Scale(no, ro, base) = exact
         ELSE \* "UFixed subtraction wraps modulo the result range when the difference is negative"
              inRange /\ ro <= base + 0 /\ Scale(no, ro, base) = exact + P2(lo + 1 - base)
    [] op = "mul" -> inRange /\ (LET b2 == MinI(r1 + r2, ro) IN Scale(no, ro, b2) = Scale(MulExact(n1, r1, n2, r2), r1 + r2, b2))
    [] op = "resize" -> lo = l2 /\ ro = r2 /\ no = Resize(sg, n1, r1, l2, r2, c[9] = 1, c[10] = 1)
    [] op = "conv" -> \* construction from another format: the number is preserved whenever it is representable
         LET exactRaw == IF r2 <= r1 THEN n1 * P2(r1 - r2) ELSE -999999
             representable == r2 <= r1 /\ exactRaw >= MinRaw(sg, l2, r2) /\ exactRaw <= MaxRaw(sg, l2, r2)
         IN ~representable \/ (lo = l2 /\ ro = r2 /\ no = exactRaw)
    [] op = "eq" -> (no = 1) <=> (Scale(n1, r1, MinI(r1, r2)) = Scale(n2, r2, MinI(r1, r2)))
    [] OTHER -> FALSE

=============================================================================
