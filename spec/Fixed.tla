-------------------------------- MODULE Fixed --------------------------------
(***************************************************************************)
(* C19: fixed-point arithmetic is exact and resize follows the selected    *)
(* styles.  A value of format [l:r] (l >= r) with raw integer n stands for *)
(* the rational n * 2^r; SFixed raws are two's complement in l-r+1 bits,   *)
(* UFixed raws are naturals.  Rationals are compared after scaling to a    *)
(* common power of two (all integers stay far below 2^31).                 *)
(***************************************************************************)
EXTENDS Integers

P2(n) == 2 ^ n
Width(l, r) == l - r + 1
\* scale raw (at exponent r) to exponent base <= r
Scale(raw, r, base) == raw * P2(r - base)
MinI(a, b) == IF a <= b THEN a ELSE b
MaxI(a, b) == IF a >= b THEN a ELSE b

MinRaw(signed, l, r) == IF signed THEN -P2(Width(l, r) - 1) ELSE 0
MaxRaw(signed, l, r) == IF signed THEN P2(Width(l, r) - 1) - 1 ELSE P2(Width(l, r)) - 1

\* "wrapped modulo the target range"
WrapRaw(signed, n, l, r) ==
  LET m == P2(Width(l, r)) IN
  IF signed THEN ((n + P2(Width(l, r) - 1)) % m) - P2(Width(l, r) - 1) ELSE n % m
\* "or saturated to its bounds"
SatRaw(signed, n, l, r) ==
  IF n < MinRaw(signed, l, r) THEN MinRaw(signed, l, r) ELSE IF n > MaxRaw(signed, l, r) THEN MaxRaw(signed, l, r) ELSE n

\* floor division for possibly negative numerators, positive d ("truncated toward minus infinity")
FloorDiv(n, d) == IF n >= 0 THEN n \div d ELSE -((-n + d - 1) \div d)

\* "rounded to nearest with ties to even"
RoundHalfEven(n, d) ==
  LET q == FloorDiv(n, d)
      rem == n - q * d
  IN IF 2 * rem < d THEN q ELSE IF 2 * rem > d THEN q + 1 ELSE IF q % 2 = 0 THEN q ELSE q + 1

\* resize to [l2:r2]: "truncated toward minus infinity or rounded to nearest with ties to even as selected, and then
\* wrapped modulo the target range or saturated to its bounds as selected, including when rounding itself carries out"
Resize(signed, raw, r1, l2, r2, round, saturate) ==
  LET shifted == IF r2 <= r1 THEN raw * P2(r1 - r2)
                 ELSE IF round THEN RoundHalfEven(raw, P2(r2 - r1)) ELSE FloorDiv(raw, P2(r2 - r1))
  IN IF saturate THEN SatRaw(signed, shifted, l2, r2) ELSE WrapRaw(signed, shifted, l2, r2)

\* exact results, scaled to exponent `base`
AddExact(ra, a, rb, b, base) == Scale(ra, a, base) + Scale(rb, b, base)
SubExact(ra, a, rb, b, base) == Scale(ra, a, base) - Scale(rb, b, base)
MulExact(ra, a, rb, b) == ra * rb                    \* at exponent a + b
=============================================================================
