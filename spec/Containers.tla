----------------------------- MODULE Containers -----------------------------
(***************************************************************************)
(* C14: abstract std.Fifo[T,N] and std.Stack[T,N].                         *)
(*  "A Fifo delivers elements in exactly the order they were pushed,       *)
(*   without loss or duplication, holds up to N-1 elements, and its        *)
(*   empty/full indications are exact ... A Stack holds up to N elements   *)
(*   ... last-in-first-out order with exact size/empty/full; in drop-old   *)
(*   mode a push to a full stack discards exactly the oldest element."     *)
(* The abstract state is the sequence of stored elements (oldest first).   *)
(* An operation is a record [push (0/1), v, pop (0/1), reset (0/1)].       *)
(***************************************************************************)
EXTENDS Naturals, Sequences

FifoCap(N) == N - 1
StackCap(N) == N

FifoEmpty(q) == q = << >>
FifoFull(q, N) == Len(q) = FifoCap(N)

\* documented preconditions: "May not be called on a full Fifo" / "on an empty Fifo"
FifoLegal(q, N, op) == (op.push = 1 => ~FifoFull(q, N)) /\ (op.pop = 1 => ~FifoEmpty(q))
\* push and pop in the same clock: the pop takes the old front, the push appends
FifoStep(q, op) ==
  LET afterPop == IF op.pop = 1 THEN Tail(q) ELSE q
  IN IF op.push = 1 THEN Append(afterPop, op.v) ELSE afterPop
FifoPopped(q) == Head(q)

StackEmpty(s) == s = << >>
StackFull(s, N) == Len(s) = StackCap(N)
\* "Only one of these operations can be performed per clock cycle"
StackLegal(s, N, op, dropOld) ==
  /\ op.push + op.pop + op.reset <= 1
  /\ (op.push = 1 => dropOld \/ ~StackFull(s, N))
  /\ (op.pop = 1 => ~StackEmpty(s))
StackStep(s, N, op) ==
  IF op.reset = 1 THEN << >>
  ELSE IF op.pop = 1 THEN SubSeq(s, 1, Len(s) - 1)
  ELSE IF op.push = 1 THEN (IF StackFull(s, N) THEN Append(Tail(s), op.v)   \* "the oldest element is dropped"
                             ELSE Append(s, op.v))
  ELSE s
StackPopped(s) == s[Len(s)]
=============================================================================
