----------------------------- MODULE CallBinding -----------------------------
(***************************************************************************)
(* C10: "calls with any mix of positional, keyword, default, *args,        *)
(* **kwargs, positional-only and keyword-only parameters ... evaluate      *)
(* during compilation to exactly the values CPython produces ... Calls     *)
(* that CPython rejects for argument-binding reasons are rejected too."    *)
(*                                                                         *)
(* Python's call-binding algorithm (language reference 6.3.4).             *)
(* signature: [po, pk, ko : sequences of [n, d (1 = has default)],          *)
(*             va (1 = *args), vk (1 = **kwargs)]                            *)
(* call:      [npos (plain positionals), star (length of a *iterable, -1 =  *)
(*             none), kw (sequence of keyword names), dstar (sequence of     *)
(*             names in a **mapping)]                                        *)
(* Argument values are identified by their source: <<"pos", i>>,            *)
(* <<"kw", name>>, <<"default", name>>.                                      *)
(***************************************************************************)
EXTENDS Integers, Sequences, FiniteSets

SeqSet(s) == {s[i] : i \in 1..Len(s)}
Names(ps) == {ps[i].n : i \in 1..Len(ps)}

Bind(sig, call) ==
  LET positional == sig.po \o sig.pk
      np == Len(positional)
      nargs == call.npos + (IF call.star = -1 THEN 0 ELSE call.star)
      kws == call.kw \o call.dstar
      kwnames == SeqSet(kws)
      dupkw == Cardinality(kwnames) # Len(kws)
      byPos == [i \in 1..(IF nargs < np THEN nargs ELSE np) |-> positional[i].n]
      posFilled == SeqSet(byPos)
      poNames == Names(sig.po)
      acceptKw == Names(sig.pk) \cup Names(sig.ko)
      \* a keyword naming a positional-only parameter goes to **kwargs if there is one, else it is an error
      extraKw == {k \in kwnames : k \notin acceptKw}
      allParams == positional \o sig.ko
      missing == {allParams[i].n : i \in {j \in 1..Len(allParams) :
                     allParams[j].n \notin posFilled /\ ~(allParams[j].n \in kwnames /\ allParams[j].n \in acceptKw) /\ allParams[j].d = 0}}
  IN
  IF dupkw THEN [ok |-> FALSE, why |-> "keyword repeated"]
  ELSE IF nargs > np /\ sig.va = 0 THEN [ok |-> FALSE, why |-> "too many positional arguments"]
  ELSE IF posFilled \cap kwnames \cap acceptKw # {} THEN [ok |-> FALSE, why |-> "multiple values for argument"]
  ELSE IF extraKw # {} /\ sig.vk = 0 THEN [ok |-> FALSE, why |-> "unexpected keyword argument"]
  ELSE IF missing # {} THEN [ok |-> FALSE, why |-> "missing required argument"]
  ELSE [ok |-> TRUE, why |-> "",
        bound |-> [p \in Names(allParams) |->
                     IF p \in posFilled THEN <<"pos", CHOOSE i \in 1..Len(byPos) : byPos[i] = p>>
                     ELSE IF p \in kwnames /\ p \in acceptKw THEN <<"kw", p>> ELSE <<"default", p>>],
        varargs |-> IF nargs > np THEN nargs - np ELSE 0,
        kwargs |-> extraKw]
=============================================================================
