------------------------------- MODULE AxiLite -------------------------------
(***************************************************************************)
(* C20: AXI4-Lite register maps decode, mask and hand-shake correctly.     *)
(*  "a register map connected through std.axi.axi4_light answers each      *)
(*   transaction exactly once, never withdraws a valid before its ready,   *)
(*   and never responds without a request.  A write updates exactly the    *)
(*   strobed bytes of exactly the addressed register (fields according to  *)
(*   their access kind), a read returns the addressed register's current   *)
(*   value, accesses to unmapped addresses leave every register unchanged" *)
(*                                                                         *)
(* The slave's timing is free, so the specification is a monitor over the  *)
(* five channels: it tracks accepted requests and what is owed, and the    *)
(* abstract register file.  Words are 32-bit sequences (index 1 = bit 0).  *)
(* Register kinds: "word" / "memword" (every byte stored), "upper16" (bits  *)
(* 31:16 stored, bits 15:0 read as the inverse of the stored field - the   *)
(* hardware-driven Field of the wrapper), "input" (read-only, shows a      *)
(* hardware signal; writes change nothing), "output" (write-only, the      *)
(* stored word drives a hardware signal; what a read returns is not        *)
(* specified), "cnt" (bits 15:0 stored; bits 19:16 / 23:20 count the       *)
(* completed reads / writes of the register through read / write           *)
(* notifications: "hardware-side field updates and notifications occur     *)
(* exactly when the corresponding access completes").                      *)
(***************************************************************************)
EXTENDS BitVec

Byte(w, i) == [j \in 1..8 |-> w[8 * i + j]]                    \* byte i (0 = least significant)
WithStrobe(old, new, strb) == [j \in 1..32 |-> IF strb[((j - 1) \div 8) + 1] = 1 THEN new[j] ELSE old[j]]

\* layout : [address -> kind];  regs : [address -> stored word]
Mapped(layout, a) == a \in DOMAIN layout

ApplyWrite(layout, regs, wr) ==            \* wr = [a, d, s]
  IF ~Mapped(layout, wr.a) THEN regs       \* "accesses to unmapped addresses leave every register unchanged"
  ELSE IF layout[wr.a] = "input" THEN regs     \* read-only
  ELSE LET merged == WithStrobe(regs[wr.a], wr.d, wr.s) IN
       [regs EXCEPT ![wr.a] = IF layout[wr.a] \in {"word", "memword", "output"} THEN merged
                              ELSE IF layout[wr.a] = "cnt" THEN [j \in 1..32 |-> IF j <= 16 THEN merged[j] ELSE 0]
                              ELSE [j \in 1..32 |-> IF j > 16 THEN merged[j] ELSE 0]]    \* only the writable field is stored

\* agreement of an observed word with a specified one (unspecified bits match anything)
Agrees(spec, seen) == Len(spec) = Len(seen) /\ \A j \in 1..Len(spec) : spec[j] = 2 \/ spec[j] = seen[j]

ReadValue(layout, regs, a) ==
  IF ~Mapped(layout, a) THEN Zeros(32)
  ELSE IF layout[a] \in {"word", "memword", "input"} THEN regs[a]
  ELSE IF layout[a] = "output" THEN AllU(32)
  \* the counter fields are judged at rest (CountersOk): while accesses are in flight their value is between two counts
  ELSE IF layout[a] = "cnt" THEN [j \in 1..32 |-> IF j <= 16 THEN regs[a][j] ELSE IF j <= 24 THEN 2 ELSE 0]
  ELSE [j \in 1..32 |-> IF j > 16 THEN regs[a][j] ELSE Not3(regs[a][j + 16])]

RECURSIVE ApplyAll(_, _, _, _)
ApplyAll(layout, regs, ws, k) == IF k = 0 THEN regs ELSE ApplyWrite(layout, ApplyAll(layout, regs, ws, k - 1), ws[k])
\* register files consistent with the committed writes plus a prefix of the writes still awaiting their response
Possible(layout, regs, infl) == {ApplyAll(layout, regs, infl, k) : k \in 0..Len(infl)}

\* ---- monitor
\* m = [regs, aw (accepted addresses), w (accepted data beats), infl (complete writes awaiting B), ar (accepted reads awaiting R),
\*      pb, pr (previous pre-edge view of the B / R channel), bage, rage]
\* inputs : [address of an "input" register -> the word its hardware signal shows]
MonInitWith(layout, inputs) ==
  \* a memory word without initial value is unspecified (2) until written
  [regs |-> [a \in DOMAIN layout |-> IF layout[a] = "memword" THEN AllU(32) ELSE IF a \in DOMAIN inputs THEN inputs[a] ELSE Zeros(32)],
   rdn |-> [a \in DOMAIN layout |-> 0], wrn |-> [a \in DOMAIN layout |-> 0], quiet |-> 0,
   aw |-> << >>, w |-> << >>, infl |-> << >>, ar |-> << >>,
   pb |-> [valid |-> 0, ready |-> 1, resp |-> << >>], pr |-> [valid |-> 0, ready |-> 1, data |-> << >>, resp |-> << >>],
   bage |-> 0, rage |-> 0]

MonInit(layout) == MonInitWith(layout, [a \in {} |-> Zeros(32)])

\* obs = pre-edge view of all channels: [awv, awr, awa, wv, wr, wd, ws, bv, br, bresp, arv, arr, ara, rv, rr, rdata, rresp]
\* -> "" or the name of the violated clause
MonCheck(layout, m, obs) ==
  IF m.pb.valid = 1 /\ m.pb.ready = 0 /\ ~(obs.bv = 1 /\ obs.bresp = m.pb.resp) THEN "bvalid withdrawn or response changed before bready"
  ELSE IF m.pr.valid = 1 /\ m.pr.ready = 0 /\ ~(obs.rv = 1 /\ obs.rdata = m.pr.data /\ obs.rresp = m.pr.resp) THEN "rvalid withdrawn or data changed before rready"
  ELSE IF obs.bv = 1 /\ m.infl = << >> THEN "write response without a complete write request"
  ELSE IF obs.rv = 1 /\ m.ar = << >> THEN "read response without a read request"
  \* "a read returns the addressed register's current value": any value the register had (or may have had, while
  \* writes were awaiting their response) between the acceptance of the address and the completion of the read
  ELSE IF obs.rv = 1 /\ obs.rr = 1 /\ ~(\E v \in (Head(m.ar).vals \cup {ReadValue(layout, r, Head(m.ar).a) : r \in Possible(layout, m.regs, m.infl)}) :
                                           Agrees(v, obs.rdata))
       THEN "read data is not the addressed register's value"
  ELSE IF m.bage > 12 THEN "no write response within 12 clocks of bready"
  ELSE IF m.rage > 12 THEN "no read response within 12 clocks of rready"
  ELSE ""

MonStep(layout, m, obs) ==
  LET awHS == obs.awv = 1 /\ obs.awr = 1
      wHS == obs.wv = 1 /\ obs.wr = 1
      bHS == obs.bv = 1 /\ obs.br = 1
      arHS == obs.arv = 1 /\ obs.arr = 1
      rHS == obs.rv = 1 /\ obs.rr = 1
      \* the response handshakes retire the oldest outstanding request first
      infl1 == IF bHS THEN Tail(m.infl) ELSE m.infl
      regs1 == IF bHS THEN ApplyWrite(layout, m.regs, Head(m.infl)) ELSE m.regs
      ar1 == IF rHS THEN Tail(m.ar) ELSE m.ar
      aw2 == IF awHS THEN Append(m.aw, obs.awa) ELSE m.aw
      w2 == IF wHS THEN Append(m.w, [d |-> obs.wd, s |-> obs.ws]) ELSE m.w
      pair == aw2 # << >> /\ w2 # << >>
      bump(f, a) == IF a \in DOMAIN f THEN [f EXCEPT ![a] = @ + 1] ELSE f
      busy == awHS \/ wHS \/ bHS \/ arHS \/ rHS \/ obs.awv = 1 \/ obs.wv = 1 \/ obs.arv = 1 \/ pair \/ infl1 # << >> \/ ar1 # << >> \/ aw2 # << >> \/ w2 # << >>
  IN [regs |-> regs1,
      \* completed accesses per mapped register (a completed access = its response handshake)
      rdn |-> IF rHS THEN bump(m.rdn, Head(m.ar).a) ELSE m.rdn,
      wrn |-> IF bHS THEN bump(m.wrn, Head(m.infl).a) ELSE m.wrn,
      quiet |-> IF busy THEN 0 ELSE m.quiet + 1,
      aw |-> IF pair THEN Tail(aw2) ELSE aw2,
      w |-> IF pair THEN Tail(w2) ELSE w2,
      infl |-> IF pair THEN Append(infl1, [a |-> Head(aw2), d |-> Head(w2).d, s |-> Head(w2).s]) ELSE infl1,
      ar |-> LET infl2 == IF pair THEN Append(infl1, [a |-> Head(aw2), d |-> Head(w2).d, s |-> Head(w2).s]) ELSE infl1
                 now(a) == {ReadValue(layout, r, a) : r \in Possible(layout, regs1, infl2)}
                 aged == [i \in 1..Len(ar1) |-> [ar1[i] EXCEPT !.vals = @ \cup now(ar1[i].a)]]
             IN IF arHS THEN Append(aged, [a |-> obs.ara, vals |-> now(obs.ara) \cup {ReadValue(layout, r, obs.ara) : r \in Possible(layout, m.regs, m.infl)}])
                ELSE aged,
      pb |-> [valid |-> obs.bv, ready |-> obs.br, resp |-> obs.bresp],
      pr |-> [valid |-> obs.rv, ready |-> obs.rr, data |-> obs.rdata, resp |-> obs.rresp],
      bage |-> IF m.infl # << >> /\ obs.br = 1 /\ ~bHS THEN m.bage + 1 ELSE 0,
      rage |-> IF m.ar # << >> /\ obs.rr = 1 /\ ~rHS THEN m.rage + 1 ELSE 0]

\* after the edge the register-backed outputs must show a register file consistent with the monitor:
\* the committed writes, plus possibly a prefix of the writes whose response is still owed
PortsOk(layout, m, ports) ==      \* ports : [address -> word shown]
  \E r \in Possible(layout, m.regs, m.infl) : \A a \in DOMAIN ports :
       Agrees(IF layout[a] \in {"word", "memword", "output"} THEN r[a]
              ELSE IF layout[a] = "cnt" THEN [j \in 1..32 |-> IF j <= 16 THEN r[a][j] ELSE 0]
              ELSE [j \in 1..32 |-> IF j > 16 THEN r[a][j] ELSE 0], ports[a])

\* "notifications occur exactly when the corresponding access completes": once the bus has been at rest for four clocks the
\* counters driven by the read / write notifications show the number of completed accesses (modulo their 4 bits)
\* cports : [address of a "cnt" register -> [rd, wr] (4-bit vectors shown on ports)]
CountersOk(layout, m, cports) ==
  m.quiet < 4 \/ \A a \in DOMAIN cports : cports[a].rd = FromInt(m.rdn[a] % 16, 4) /\ cports[a].wr = FromInt(m.wrn[a] % 16, 4)
=============================================================================
