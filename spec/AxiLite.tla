------------------------------- MODULE AxiLite -------------------------------
(***************************************************************************)
(* C20: AXI4-Lite register maps decode, mask and hand-shake correctly.     *)
(*  "a register map connected through std.axi.axi4_light answers each      *)
(*   transaction exactly once, never withdraws a valid before its ready,   *)
(*   and never responds without a request.  A write updates exactly the    *)
(*   strobed bytes of exactly the addressed register (fields according to  *)
(*   their access kind), a read returns the addressed register's current   *)
(*   value, accesses to unmapped addresses leave every register unchanged" *)
(*                                                                         *)
(* The slave's timing is free, so the specification is a monitor over the  *)
(* five channels: it tracks accepted requests and what is owed, and the    *)
(* abstract register file.  Words are 32-bit sequences (index 1 = bit 0).  *)
(* Register kinds: "word" (every byte stored), "upper16" (bits 31:16       *)
(* stored, bits 15:0 read as the inverse of the stored field - the         *)
(* hardware-driven Field of the wrapper).                                  *)
(***************************************************************************)
EXTENDS BitVec

Byte(w, i) == [j \in 1..8 |-> w[8 * i + j]]                    \* byte i (0 = least significant)
WithStrobe(old, new, strb) == [j \in 1..32 |-> IF strb[((j - 1) \div 8) + 1] = 1 THEN new[j] ELSE old[j]]

\* layout : [address -> kind];  regs : [address -> stored word]
Mapped(layout, a) == a \in DOMAIN layout

ApplyWrite(layout, regs, wr) ==            \* wr = [a, d, s]
  IF ~Mapped(layout, wr.a) THEN regs       \* "accesses to unmapped addresses leave every register unchanged"
  ELSE LET merged == WithStrobe(regs[wr.a], wr.d, wr.s) IN
       [regs EXCEPT ![wr.a] = IF layout[wr.a] \in {"word", "memword"} THEN merged
                              ELSE [j \in 1..32 |-> IF j > 16 THEN merged[j] ELSE 0]]    \* only the writable field is stored

\* agreement of an observed word with a specified one (unspecified bits match anything)
Agrees(spec, seen) == Len(spec) = Len(seen) /\ \A j \in 1..Len(spec) : spec[j] = 2 \/ spec[j] = seen[j]

ReadValue(layout, regs, a) ==
  IF ~Mapped(layout, a) THEN Zeros(32)
  ELSE IF layout[a] \in {"word", "memword"} THEN regs[a]
  ELSE [j \in 1..32 |-> IF j > 16 THEN regs[a][j] ELSE Not3(regs[a][j + 16])]

RECURSIVE ApplyAll(_, _, _, _)
ApplyAll(layout, regs, ws, k) == IF k = 0 THEN regs ELSE ApplyWrite(layout, ApplyAll(layout, regs, ws, k - 1), ws[k])
\* register files consistent with the committed writes plus a prefix of the writes still awaiting their response
Possible(layout, regs, infl) == {ApplyAll(layout, regs, infl, k) : k \in 0..Len(infl)}

\* ---- monitor
\* m = [regs, aw (accepted addresses), w (accepted data beats), infl (complete writes awaiting B), ar (accepted reads awaiting R),
\*      pb, pr (previous pre-edge view of the B / R channel), bage, rage]
MonInit(layout) ==
  \* a memory word without initial value is unspecified (2) until written
  [regs |-> [a \in DOMAIN layout |-> IF layout[a] = "memword" THEN AllU(32) ELSE Zeros(32)], aw |-> << >>, w |-> << >>, infl |-> << >>, ar |-> << >>,
   pb |-> [valid |-> 0, ready |-> 1, resp |-> << >>], pr |-> [valid |-> 0, ready |-> 1, data |-> << >>, resp |-> << >>],
   bage |-> 0, rage |-> 0]

\* obs = pre-edge view of all channels: [awv, awr, awa, wv, wr, wd, ws, bv, br, bresp, arv, arr, ara, rv, rr, rdata, rresp]
\* -> "" or the name of the violated clause
MonCheck(layout, m, obs) ==
  IF m.pb.valid = 1 /\ m.pb.ready = 0 /\ ~(obs.bv = 1 /\ obs.bresp = m.pb.resp) THEN "bvalid withdrawn or response changed before bready"
  ELSE IF m.pr.valid = 1 /\ m.pr.ready = 0 /\ ~(obs.rv = 1 /\ obs.rdata = m.pr.data /\ obs.rresp = m.pr.resp) THEN "rvalid withdrawn or data changed before rready"
  ELSE IF obs.bv = 1 /\ m.infl = << >> THEN "write response without a complete write request"
  ELSE IF obs.rv = 1 /\ m.ar = << >> THEN "read response without a read request"
  \* "a read returns the addressed register's current value": any value the register had (or may have had, while
  \* writes were awaiting their response) between the acceptance of the address and the completion of the read
  ELSE IF obs.rv = 1 /\ obs.rr = 1 /\ ~(\E v \in (Head(m.ar).vals \cup {ReadValue(layout, r, Head(m.ar).a) : r \in Possible(layout, m.regs, m.infl)}) :
                                           Agrees(v, obs.rdata))
       THEN "read data is not the addressed register's value"
  ELSE IF m.bage > 12 THEN "no write response within 12 clocks of bready"
  ELSE IF m.rage > 12 THEN "no read response within 12 clocks of rready"
  ELSE ""

MonStep(layout, m, obs) ==
  LET awHS == obs.awv = 1 /\ obs.awr = 1
      wHS == obs.wv = 1 /\ obs.wr = 1
      bHS == obs.bv = 1 /\ obs.br = 1
      arHS == obs.arv = 1 /\ obs.arr = 1
      rHS == obs.rv = 1 /\ obs.rr = 1
      \* the response handshakes retire the oldest outstanding request first
      infl1 == IF bHS THEN Tail(m.infl) ELSE m.infl
      regs1 == IF bHS THEN ApplyWrite(layout, m.regs, Head(m.infl)) ELSE m.regs
      ar1 == IF rHS THEN Tail(m.ar) ELSE m.ar
      aw2 == IF awHS THEN Append(m.aw, obs.awa) ELSE m.aw
      w2 == IF wHS THEN Append(m.w, [d |-> obs.wd, s |-> obs.ws]) ELSE m.w
      pair == aw2 # << >> /\ w2 # << >>
  IN [regs |-> regs1,
      aw |-> IF pair THEN Tail(aw2) ELSE aw2,
      w |-> IF pair THEN Tail(w2) ELSE w2,
      infl |-> IF pair THEN Append(infl1, [a |-> Head(aw2), d |-> Head(w2).d, s |-> Head(w2).s]) ELSE infl1,
      ar |-> LET infl2 == IF pair THEN Append(infl1, [a |-> Head(aw2), d |-> Head(w2).d, s |-> Head(w2).s]) ELSE infl1
                 now(a) == {ReadValue(layout, r, a) : r \in Possible(layout, regs1, infl2)}
                 aged == [i \in 1..Len(ar1) |-> [ar1[i] EXCEPT !.vals = @ \cup now(ar1[i].a)]]
             IN IF arHS THEN Append(aged, [a |-> obs.ara, vals |-> now(obs.ara) \cup {ReadValue(layout, r, obs.ara) : r \in Possible(layout, m.regs, m.infl)}])
                ELSE aged,
      pb |-> [valid |-> obs.bv, ready |-> obs.br, resp |-> obs.bresp],
      pr |-> [valid |-> obs.rv, ready |-> obs.rr, data |-> obs.rdata, resp |-> obs.rresp],
      bage |-> IF m.infl # << >> /\ obs.br = 1 /\ ~bHS THEN m.bage + 1 ELSE 0,
      rage |-> IF m.ar # << >> /\ obs.rr = 1 /\ ~rHS THEN m.rage + 1 ELSE 0]

\* after the edge the register-backed outputs must show a register file consistent with the monitor:
\* the committed writes, plus possibly a prefix of the writes whose response is still owed
PortsOk(layout, m, ports) ==      \* ports : [address -> word shown]
  \E r \in Possible(layout, m.regs, m.infl) : \A a \in DOMAIN ports :
       Agrees(IF layout[a] \in {"word", "memword"} THEN r[a] ELSE [j \in 1..32 |-> IF j > 16 THEN r[a][j] ELSE 0], ports[a])
=============================================================================
