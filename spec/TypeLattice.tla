---------------------------- MODULE TypeLattice ----------------------------
(***************************************************************************)
(* C13: parametrised types are canonical and form the documented subtype   *)
(* lattice, whatever the order of first use (the classes are created       *)
(* lazily and cached).                                                     *)
(*                                                                         *)
(* A type expression is a record [q, k, w]:                                *)
(*   q  "none" (unqualified) | "signal" | "variable" | "temporary" |       *)
(*      "port_in" | "port_out"                                             *)
(*   k  "bit" | "bv" | "u" | "s"      w  width, 0 = unparametrised family  *)
(* The abstract state is the sequence of expressions used so far (`hist`)  *)
(* and the cache `id` : expression -> class identity (a fresh number).     *)
(***************************************************************************)
EXTENDS Naturals, Sequences, FiniteSets, TLC

CONSTANTS Universe, MaxLen

\* ---- the documented lattice
\* direct documented bases of a wrapped type
WParents(a) ==
  IF a.k = "bit" THEN {}
  ELSE IF a.w > 0 THEN
       (IF a.k \in {"u", "s"} THEN {[k |-> a.k, w |-> 0], [k |-> "bv", w |-> a.w]} ELSE {[k |-> "bv", w |-> 0]})
  ELSE IF a.k \in {"u", "s"} THEN {[k |-> "bv", w |-> 0]} ELSE {}

RECURSIVE WAnc(_)
WAnc(a) == {a} \cup UNION {WAnc(p) : p \in WParents(a)}
WSub(a, b) == b \in WAnc(a)       \* "unrelated widths or kinds are never subclasses of each other"

W(x) == [k |-> x.k, w |-> x.w]
IsPort(x) == x.q \in {"port_in", "port_out"}

\* "Q[Unsigned[n]] and Q[Signed[n]] are subclasses of Q[BitVector[n]], Q[Unsigned]/Q[Signed] and Q[BitVector],
\*  every port type is a signal type of the same wrapped type"
Sub(x, y) ==
  IF x.q = y.q THEN WSub(W(x), W(y))
  ELSE IF IsPort(x) /\ y.q = "signal" THEN WSub(W(x), W(y))
  ELSE FALSE

\* ---- lazily created, cached classes
VARIABLES hist, id, next
vars == <<hist, id, next>>

Init == hist = << >> /\ id = [x \in {} |-> 0] /\ next = 1

\* Get(t): returns the cached class or creates it
Get(t) ==
  /\ Len(hist) < MaxLen
  /\ hist' = Append(hist, t)
  /\ IF t \in DOMAIN id THEN UNCHANGED <<id, next>>
     ELSE id' = (t :> next) @@ id /\ next' = next + 1

Next == \E t \in Universe : Get(t)
Spec == Init /\ [][Next]_vars

\* ---- design-level properties of the specification itself
Canonical == \A i, j \in 1..Len(hist) : (hist[i] = hist[j]) <=> (id[hist[i]] = id[hist[j]])
PartialOrder ==
  /\ \A x \in Universe : Sub(x, x)
  /\ \A x, y \in Universe : Sub(x, y) /\ Sub(y, x) => x = y
  /\ \A x, y, z \in Universe : Sub(x, y) /\ Sub(y, z) => Sub(x, z)
=============================================================================
