----------------------------- MODULE NumericStd -----------------------------
(***************************************************************************)
(* IEEE 1076.3 numeric_std / std_logic_1164 functions as far as CoHDL      *)
(* emits them, over dynamically typed values.                              *)
(*                                                                         *)
(* A value is a record [t |-> kind, v |-> payload]:                         *)
(*   "sl"   std_logic             v \in 0..2                                *)
(*   "slv" "u" "s"  vectors        v = bit sequence (index 1 = bit 0)        *)
(*   "str"  untyped string literal v = bit sequence (typed by context)       *)
(*   "bool" boolean               v \in {0,1} (2 = poisoned, checking view) *)
(*   "int"  integer               v \in Int                                 *)
(*   "enum" enumeration value     v = position (1-based)                    *)
(*   "arr"  array value           v = sequence of element values            *)
(*   "agg"  aggregate literal     v = [items, others] (typed by context)    *)
(*   "err"  run-time / type error v = reason (poisons the step)             *)
(* Errors are classed by prefix: "type:" static typing errors, "rt:" errors *)
(* the LRM makes run-time errors, "uninit" reads of poisoned intermediates, *)
(* "unmodelled:" constructs outside the modelled subset (inconclusive).     *)
(***************************************************************************)
EXTENDS BitVec

V(t, v)  == [t |-> t, v |-> v]
VSl(b)   == V("sl", b)
VBool(b) == V("bool", IF b THEN 1 ELSE 0)
VInt(n)  == V("int", n)
VErr(s)  == V("err", s)
IsErr(x) == x.t = "err"
IsVec(x) == x.t \in {"slv", "u", "s"}
IsNum(x) == x.t \in {"u", "s"}
IsVecOrStr(x) == x.t \in {"slv", "u", "s", "str"}

\* first error among operands, if any
Err2(a, b) == IF IsErr(a) THEN a ELSE b

\* integer value of a numeric vector (width <= 30, Known)
NumVal(x) == IF x.t = "s" THEN ToInt(x.v) ELSE ToNat(x.v)
MkNum(t, n, w) == V(t, FromInt(n, w))

TooWide(w) == w > 30

\* an integer operand is converted to a vector of the other operand's length
\* (numeric_std: TO_UNSIGNED / TO_SIGNED of R'LENGTH; truncation warns, not errors)
FitsKind(t, n, w) == IF t = "u" THEN n >= 0 /\ (w >= 31 \/ n < Pow2(w))
                     ELSE w >= 31 \/ (n >= -Pow2(w - 1) /\ n < Pow2(w - 1))

(* ---------------- arithmetic ---------------- *)
\* generic: both numeric vectors of the same kind, or one an int
ArithWidth(op, a, b) ==
  LET la == IF a.t = "int" THEN 0 ELSE Len(a.v)
      lb == IF b.t = "int" THEN 0 ELSE Len(b.v)
  IN CASE op \in {"+", "-"} -> Max(la, lb)
       [] op = "*" -> IF a.t = "int" THEN lb + lb ELSE IF b.t = "int" THEN la + la ELSE la + lb
       [] op = "/" -> IF a.t = "int" THEN lb ELSE la
       [] op \in {"mod", "rem"} -> IF b.t = "int" THEN la ELSE lb

ArithInt(op, x, y) ==
  CASE op = "+" -> x + y
    [] op = "-" -> x - y
    [] op = "*" -> x * y
    [] op = "/" -> TruncDiv(x, y)
    [] op = "rem" -> TruncRem(x, y)
    [] op = "mod" -> FloorMod(x, y)

Arith(op, a, b) ==
  IF a.t = "int" /\ b.t = "int" THEN
       IF op \in {"/", "mod", "rem"} /\ b.v = 0 THEN VErr("rt:division by zero")
       ELSE VInt(ArithInt(op, a.v, b.v))
  ELSE
  LET kind == IF a.t = "int" THEN b.t ELSE a.t
      w == ArithWidth(op, a, b)
  IN
  IF ~(kind \in {"u", "s"}) \/ ~(a.t \in {kind, "int"}) \/ ~(b.t \in {kind, "int"})
    THEN VErr("type:no arithmetic operator for " \o a.t \o " " \o op \o " " \o b.t)
  ELSE IF a.t = "int" /\ kind = "u" /\ a.v < 0 THEN VErr("rt:negative value for natural operand")
  ELSE IF b.t = "int" /\ kind = "u" /\ b.v < 0 THEN VErr("rt:negative value for natural operand")
  ELSE IF (a.t # "int" /\ Len(a.v) = 0) \/ (b.t # "int" /\ Len(b.v) = 0) THEN V(kind, << >>)
  ELSE IF (a.t # "int" /\ ~Known(a.v)) \/ (b.t # "int" /\ ~Known(b.v)) THEN V(kind, AllU(w))
  ELSE IF op \in {"+", "-"} /\ TooWide(w) THEN
       \* wide add/sub: ripple on extended operands (int operands must be small)
       LET ea == IF a.t = "int" THEN FromInt(a.v, 30) ELSE a.v
           eb == IF b.t = "int" THEN FromInt(b.v, 30) ELSE b.v
           xa == IF kind = "s" \/ a.t = "int" THEN SignExt(ea, w) ELSE ZeroExt(ea, w)
           xb == IF kind = "s" \/ b.t = "int" THEN SignExt(eb, w) ELSE ZeroExt(eb, w)
       IN V(kind, IF op = "+" THEN AddV(xa, xb) ELSE SubV(xa, xb))
  ELSE IF TooWide(w) \/ (a.t # "int" /\ TooWide(Len(a.v))) \/ (b.t # "int" /\ TooWide(Len(b.v)))
       THEN VErr("unmodelled:wide multiplication/division")
  ELSE
  LET x == IF a.t = "int" THEN a.v ELSE NumVal(a)
      y == IF b.t = "int" THEN b.v ELSE NumVal(b)
  IN IF op \in {"/", "mod", "rem"} /\ y = 0 THEN VErr("rt:division by zero")
     ELSE MkNum(kind, ArithInt(op, x, y), w)

(* ---------------- logical ---------------- *)
Bit2(op, x, y) ==
  CASE op = "and" -> And3(x, y) [] op = "or" -> Or3(x, y) [] op = "xor" -> Xor3(x, y)
    [] op = "nand" -> Not3(And3(x, y)) [] op = "nor" -> Not3(Or3(x, y)) [] op = "xnor" -> Not3(Xor3(x, y))

Logical(op, a, b) ==
  IF a.t = "bool" /\ b.t = "bool" THEN
       IF a.v = 2 \/ b.v = 2 THEN VErr("uninit") ELSE V("bool", Bit2(op, a.v, b.v))
  ELSE IF a.t = "sl" /\ b.t = "sl" THEN VSl(Bit2(op, a.v, b.v))
  ELSE IF IsVecOrStr(a) /\ IsVecOrStr(b) /\ (a.t = b.t \/ a.t = "str" \/ b.t = "str") /\ ~(a.t = "str" /\ b.t = "str") THEN
       IF Len(a.v) # Len(b.v) THEN VErr("rt:length mismatch in logical operator")
       ELSE V(IF a.t = "str" THEN b.t ELSE a.t, [i \in 1..Len(a.v) |-> Bit2(op, a.v[i], b.v[i])])
  ELSE VErr("type:no logical operator for " \o a.t \o " " \o op \o " " \o b.t)

(* ---------------- relational ---------------- *)
RelInt(op, x, y) ==
  CASE op = "=" -> x = y [] op = "/=" -> x # y [] op = "<" -> x < y
    [] op = "<=" -> x <= y [] op = ">" -> x > y [] op = ">=" -> x >= y

\* wide equality / ordering helpers (unsigned compare from the top bit down)
RECURSIVE CmpU(_, _, _)
CmpU(a, b, i) == \* -1,0,1 ; a,b same length, Known
  IF i = 0 THEN 0 ELSE IF a[i] # b[i] THEN (IF a[i] < b[i] THEN -1 ELSE 1) ELSE CmpU(a, b, i - 1)

Relational(op, a, b) ==
  IF a.t = "int" /\ b.t = "int" THEN VBool(RelInt(op, a.v, b.v))
  ELSE IF a.t = b.t /\ a.t \in {"sl", "enum"} THEN
       IF op \in {"=", "/="} \/ a.t = "enum" THEN VBool(RelInt(op, a.v, b.v))
       ELSE VErr("unmodelled:ordering of std_logic")
  ELSE IF a.t = "bool" /\ b.t = "bool" THEN
       IF a.v = 2 \/ b.v = 2 THEN VErr("uninit") ELSE VBool(RelInt(op, a.v, b.v))
  ELSE IF (a.t = "slv" /\ b.t \in {"slv", "str"}) \/ (a.t = "str" /\ b.t = "slv") THEN
       \* predefined array equality: equal iff same length and all elements equal
       IF op = "=" THEN VBool(a.v = b.v)
       ELSE IF op = "/=" THEN VBool(a.v # b.v)
       ELSE VErr("unmodelled:ordering of std_logic_vector")
  ELSE IF a.t = "arr" /\ b.t = "arr" /\ op \in {"=", "/="} THEN VBool((a.v = b.v) = (op = "="))
  ELSE
  LET kind == IF a.t \in {"int", "str"} THEN b.t ELSE a.t IN
  IF ~(kind \in {"u", "s"}) \/ ~(a.t \in {kind, "int", "str"}) \/ ~(b.t \in {kind, "int", "str"})
       THEN VErr("type:no relational operator for " \o a.t \o " " \o op \o " " \o b.t)
  ELSE IF (a.t # "int" /\ Len(a.v) = 0) \/ (b.t # "int" /\ Len(b.v) = 0) THEN VBool(op = "/=")
  ELSE IF (a.t # "int" /\ ~Known(a.v)) \/ (b.t # "int" /\ ~Known(b.v)) THEN VBool(op = "/=")  \* numeric_std: FALSE (TRUE for /=) with a warning
  ELSE IF a.t # "int" /\ b.t # "int" /\ (TooWide(Len(a.v)) \/ TooWide(Len(b.v))) THEN
       LET w == Max(Len(a.v), Len(b.v))
           xa == IF kind = "s" THEN SignExt(a.v, w) ELSE ZeroExt(a.v, w)
           xb == IF kind = "s" THEN SignExt(b.v, w) ELSE ZeroExt(b.v, w)
           \* signed: flip the sign bit to compare as unsigned
           fa == IF kind = "s" THEN [xa EXCEPT ![w] = 1 - xa[w]] ELSE xa
           fb == IF kind = "s" THEN [xb EXCEPT ![w] = 1 - xb[w]] ELSE xb
       IN VBool(RelInt(op, CmpU(fa, fb, w), 0))
  ELSE IF (a.t # "int" /\ TooWide(Len(a.v))) \/ (b.t # "int" /\ TooWide(Len(b.v))) THEN
       \* wide vector against integer: extend the integer
       LET va == IF a.t = "int" THEN V(kind, FromInt(a.v, 31)) ELSE a
           vb == IF b.t = "int" THEN V(kind, FromInt(b.v, 31)) ELSE b
           w == Max(Len(va.v), Len(vb.v))
           xa == IF kind = "s" \/ a.t = "int" THEN SignExt(va.v, w) ELSE ZeroExt(va.v, w)
           xb == IF kind = "s" \/ b.t = "int" THEN SignExt(vb.v, w) ELSE ZeroExt(vb.v, w)
           fa == IF kind = "s" THEN [xa EXCEPT ![w] = 1 - xa[w]] ELSE xa
           fb == IF kind = "s" THEN [xb EXCEPT ![w] = 1 - xb[w]] ELSE xb
       IN VBool(RelInt(op, CmpU(fa, fb, w), 0))
  ELSE VBool(RelInt(op, IF a.t = "int" THEN a.v ELSE NumVal([t |-> kind, v |-> a.v]),
                        IF b.t = "int" THEN b.v ELSE NumVal([t |-> kind, v |-> b.v])))

(* ---------------- concatenation ---------------- *)
ConcatV(a, b) ==
  IF IsVecOrStr(a) /\ IsVecOrStr(b) THEN
       IF a.t = b.t \/ a.t = "str" \/ b.t = "str"
         THEN V(IF a.t = "str" THEN b.t ELSE a.t, Concat(a.v, b.v))
         ELSE VErr("type:concatenation of " \o a.t \o " and " \o b.t)
  ELSE IF IsVecOrStr(a) /\ b.t = "sl" THEN V(a.t, Concat(a.v, <<b.v>>))
  ELSE IF a.t = "sl" /\ IsVecOrStr(b) THEN V(b.t, Concat(<<a.v>>, b.v))
  ELSE IF a.t = "sl" /\ b.t = "sl" THEN V("str", <<b.v, a.v>>)
  ELSE VErr("type:concatenation of " \o a.t \o " and " \o b.t)

(* ---------------- unary ---------------- *)
Unary(op, a) ==
  CASE op = "not" ->
         IF a.t = "bool" THEN (IF a.v = 2 THEN VErr("uninit") ELSE V("bool", 1 - a.v))
         ELSE IF a.t = "sl" THEN VSl(Not3(a.v))
         ELSE IF IsVec(a) THEN V(a.t, NotV(a.v))
         ELSE VErr("type:not of " \o a.t)
    [] op = "-" ->
         IF a.t = "int" THEN VInt(-a.v)
         ELSE IF a.t = "s" THEN (IF ~Known(a.v) THEN V("s", AllU(Len(a.v))) ELSE V("s", NegV(a.v)))
         ELSE VErr("type:unary minus of " \o a.t)
    [] op = "+" -> IF a.t \in {"int", "s", "u"} THEN a ELSE VErr("type:unary plus of " \o a.t)
    [] op = "abs" ->
         IF a.t = "int" THEN VInt(AbsI(a.v))
         ELSE IF a.t = "s" THEN
              (IF ~Known(a.v) THEN V("s", AllU(Len(a.v)))
               ELSE IF Len(a.v) > 0 /\ a.v[Len(a.v)] = 1 THEN V("s", NegV(a.v)) ELSE a)
         ELSE VErr("type:abs of " \o a.t)

(* ---------------- named functions ---------------- *)
Resize(a, n) ==
  IF n.t # "int" THEN VErr("type:resize size must be integer")
  ELSE IF n.v < 0 THEN VErr("rt:negative size")
  ELSE IF a.t = "u" THEN V("u", ResizeU(a.v, n.v))
  ELSE IF a.t = "s" THEN V("s", ResizeS(a.v, n.v))
  ELSE VErr("type:resize of " \o a.t)

ToUnsigned(i, n) ==
  IF i.t # "int" \/ n.t # "int" THEN VErr("type:to_unsigned arguments")
  ELSE IF i.v < 0 THEN VErr("rt:to_unsigned of negative value")
  ELSE V("u", IF n.v <= 30 THEN FromInt(i.v, n.v) ELSE ZeroExt(FromInt(i.v, 30), n.v))  \* truncation only warns

ToSigned(i, n) ==
  IF i.t # "int" \/ n.t # "int" THEN VErr("type:to_signed arguments")
  ELSE V("s", IF n.v <= 30 THEN FromInt(i.v, n.v) ELSE SignExt(FromInt(i.v, 30), n.v))

ToInteger(a) ==
  IF ~IsNum(a) THEN VErr("type:to_integer of " \o a.t)
  ELSE IF ~Known(a.v) THEN VInt(0)            \* numeric_std: warning, returns 0
  ELSE IF Len(a.v) > 30 THEN
        (IF \A i \in 31..Len(a.v) : a.v[i] = 0 THEN VInt(ToNat(Low(a.v, 30))) ELSE VErr("unmodelled:to_integer > 30 bits"))
  ELSE VInt(NumVal(a))

Conv(kind, a) == \* type conversion between closely related array types
  IF IsVec(a) THEN V(kind, a.v)
  ELSE IF a.t = "str" THEN VErr("type:conversion of a string literal (ambiguous operand)")
  ELSE VErr("type:conversion of " \o a.t \o " to vector type")

Qualify(kind, a) == \* qualified expression  kind'(a)
  IF a.t = kind \/ a.t = "str" THEN V(kind, a.v)
  ELSE VErr("type:qualified expression " \o kind \o "'(" \o a.t \o ")")

ShiftFn(left, a, n) ==
  IF n.t # "int" THEN VErr("type:shift count must be integer")
  ELSE IF n.v < 0 THEN VErr("rt:negative shift count (natural)")
  ELSE IF ~IsNum(a) THEN VErr("type:shift of " \o a.t)
  ELSE IF left THEN V(a.t, Shl(a.v, n.v))
  ELSE IF a.t = "u" THEN V("u", ShrL(a.v, n.v))
  ELSE V("s", ShrA(a.v, n.v))
=============================================================================
