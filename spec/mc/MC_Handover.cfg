SPECIFICATION Spec
CONSTRAINT Report
POSTCONDITION Stats
VIEW View
CHECK_DEADLOCK FALSE
