--------------------------- MODULE MC_CallBinding ---------------------------
(* enumerates signatures x call shapes and prints the specification's answer for each pair *)
EXTENDS CallBinding, Json, TLC, TLCExt
P(n, d) == [n |-> n, d |-> d]
\* defaults only on a suffix of the positional parameters (Python syntax rule)
PosLists == { << >>, <<P("a", 0)>>, <<P("a", 1)>>, <<P("a", 0), P("b", 0)>>, <<P("a", 0), P("b", 1)>>, <<P("a", 1), P("b", 1)>> }
PoLists == { << >>, <<P("p", 0)>> }
KoLists == { << >>, <<P("c", 0)>>, <<P("c", 1)>> }
Sigs == {[po |-> po, pk |-> pk, ko |-> ko, va |-> va, vk |-> vk] :
           po \in PoLists, pk \in PosLists, ko \in KoLists, va \in {0, 1}, vk \in {0, 1}}
KwLists == { << >>, <<"a">>, <<"b">>, <<"c">>, <<"z">>, <<"p">>, <<"a", "b">>, <<"b", "a">>, <<"a", "c">>, <<"c", "z">>, <<"b", "c">>, <<"a", "b", "c">> }
DstarLists == { << >>, <<"a">>, <<"z">>, <<"c">> }
Calls == {[npos |-> n, star |-> s, kw |-> k, dstar |-> d] : n \in 0..3, s \in {-1, 0, 1, 2}, k \in KwLists, d \in DstarLists}
\* a positional-only parameter with a default before one without is a syntax error: exclude
LegalSig(sg) == LET ps == sg.po \o sg.pk IN \A i, j \in 1..Len(ps) : i < j /\ ps[i].d = 1 => ps[j].d = 1
ASSUME \A sg \in {x \in Sigs : LegalSig(x)} : \A c \in Calls :
          PrintT(<<"CASE", ToJson([sig |-> sg, call |-> c, res |-> Bind(sg, c)])>>)
ASSUME PrintT(<<"STAT", "pairs", Cardinality({x \in Sigs : LegalSig(x)}) * Cardinality(Calls)>>)
VARIABLE x
Init == x = 0
Next == x' = x
Spec == Init /\ [][Next]_x
=============================================================================
