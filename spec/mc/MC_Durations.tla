---------------------------- MODULE MC_Durations ----------------------------
(***************************************************************************)
(* Validation of recorded Duration conversions (C16) against Durations.tla *)
(* case = [d (duration, ps), p (period, ps), r (ticks returned, or -1 when *)
(*         count_periods raised)]                                          *)
(***************************************************************************)
EXTENDS Durations, Json, IOUtils, TLC, TLCExt, FiniteSets, Sequences

Obs == JsonDeserialize(IOEnv.OBS_FILE)
Cases == Obs.cases
N == Len(Cases)

Ok(c) == IF Divides(c.p, c.d) THEN c.r = Ticks(c.d, c.p)
         ELSE IF ClearlyInexact(c.d, c.p) THEN c.r = -1
         ELSE TRUE                                   \* inside the documented tolerance: either answer

ASSUME \A i \in 1..N : Ok(Cases[i]) \/ PrintT(<<"VIOL", i, "ticks">>)
ASSUME PrintT(<<"STAT", "cases", N>>)
ASSUME PrintT(<<"STAT", "exact", Cardinality({i \in 1..N : Divides(Cases[i].p, Cases[i].d)})>>)

VARIABLE x
Init == x = 0
Next == x' = x
Spec == Init /\ [][Next]_x
=============================================================================
