SPECIFICATION Spec
