----------------------------- MODULE MC_Static -----------------------------
(***************************************************************************)
(* Evaluates the named VhdlStatic predicates on every recorded design and  *)
(* prints the offending items (C06, C07, C12).                             *)
(***************************************************************************)
EXTENDS VhdlStatic, Json, IOUtils, TLCExt
Obs == JsonDeserialize(IOEnv.OBS_FILE)
N == Len(Obs.designs)
Dn(p) == Obs.designs[p]

Findings(p) ==
  LET D == Dn(p).ast IN
  [emitted_once |-> EmittedOnce(D), bottom_up |-> NotBottomUp(D), port_map |-> PortMapDefects(D),
   drivers |-> MultipleDrivers(D), variables |-> VariablesEscape(D),
   declared_twice |-> DeclaredTwice(D), hides_predefined |-> HidesPredefined(D), undeclared |-> Undeclared(D),
   out_port_read |-> OutPortRead(D), case_defects |-> CaseDefects(D), sensitivity |-> SensitivityDefects(D),
   typing |-> IF Dn(p).typecheck = 1 THEN TypeDefects(D, Dn(p).top) ELSE {}]

Clean(f) == \A k \in DOMAIN f : f[k] = {}

ASSUME \A p \in 1..N : LET f == Findings(p) IN
          /\ (Clean(f) \/ PrintT(<<"VIOL", Dn(p).id, ToJson(f)>>))
          /\ PrintT(<<"CASE", Dn(p).id, ToJson([e \in DOMAIN Dn(p).ifaces |-> Interface(Dn(p).ast, e)])>>)
ASSUME PrintT(<<"STAT", "designs", N>>)
VARIABLE x
Init == x = 0
Next == x' = x
Spec == Init /\ [][Next]_x
=============================================================================
