SPECIFICATION Spec
