------------------------- MODULE MC_CompilerState -------------------------
EXTENDS CompilerState, Json, TLCExt
MCAccepted == {"comb", "coro", "prefix", "hier", "fifo", "reserved_opt", "enum_match", "fn_return", "sub_coro"}
MCRejected == {"rej_arch", "rej_trace", "rej_statemachine", "rej_drivers", "rej_prefix", "rej_temporary", "rej_in_subcoro", "rej_in_call"}
MCMaxLen == 3
Emit == Len(hist) < MCMaxLen \/ PrintT(<<"CASE", ToJson(hist)>>)
=============================================================================
