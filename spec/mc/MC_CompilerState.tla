------------------------- MODULE MC_CompilerState -------------------------
EXTENDS CompilerState, Json, TLCExt
MCAccepted == {"comb", "coro", "prefix", "hier", "fifo", "reserved_opt", "enum_match"}
MCRejected == {"rej_arch", "rej_trace", "rej_statemachine", "rej_drivers", "rej_prefix", "rej_temporary"}
MCMaxLen == 3
Emit == Len(hist) < MCMaxLen \/ PrintT(<<"CASE", ToJson(hist)>>)
=============================================================================
