----------------------------- MODULE MC_Product -----------------------------
(***************************************************************************)
(* Refinement product used by C01-C04 (and as a building block elsewhere): *)
(* for every recorded observation (ADL source description, VHDL emitted by *)
(* the real compiler) the emitted design, interpreted by VhdlSem, is run   *)
(* in lock step with the source semantics CoSem over ALL input sequences;  *)
(* after every clock the output ports must agree.                          *)
(*                                                                         *)
(* Observations come from IOEnv.OBS_FILE (written by the harness).  pid    *)
(* picks the observation; inputs are action parameters, not state.         *)
(***************************************************************************)
EXTENDS VhdlSem, CoSem, Json, IOUtils, TLCExt

Obs == JsonDeserialize(IOEnv.OBS_FILE)
N == Len(Obs.designs)

Dn(p)  == Obs.designs[p]
FlatOf == [p \in 1..N |-> Elab(Dn(p).ast, Dn(p).top, SeqToSet(Dn(p).keep))]
\* the design as the source semantics reads it (always blocks are concurrent contexts of their own)
AdlOf == [p \in 1..N |-> ExpandAlways(Dn(p).adl)]
Adl(p) == AdlOf[p]
SumOf  == [p \in 1..N |-> Summary(Adl(p))]

\* ---- value correspondence between the two semantics (ports only)
KindMap == [bit |-> "sl", bv |-> "slv", u |-> "u", s |-> "s"]
ToImpl(v) == [t |-> KindMap[v.t], v |-> v.v]

\* all values of an input port description [n, k, w]
ValuesOf(d) == IF d.k = "bit" THEN {CBit(0), CBit(1)}
               ELSE {CV(d.k, b) : b \in [1..d.w -> {0, 1}]}

RECURSIVE Prod(_, _)
\* set of functions name -> value over the input descriptions ds[i..]
Prod(ds, i) == IF i > Len(ds) THEN {CEmptyFn}
               ELSE {(ds[i].n :> v) @@ f : v \in ValuesOf(ds[i]), f \in Prod(ds, i + 1)}

InSpace == [p \in 1..N |-> Prod(Dn(p).inputs, 1)]

VARIABLES pid, impl, spec, err, last, depth
vars == <<pid, impl, spec, err, last, depth>>

\* outputs agree: where the source semantics leaves a bit unspecified (2) anything goes
BitsAgree(sv, iv) ==
  IF sv.t = "bit" THEN sv.v = 2 \/ sv.v = iv.v
  ELSE Len(sv.v) = Len(iv.v) /\ \A i \in 1..Len(sv.v) : sv.v[i] = 2 \/ sv.v[i] = iv.v[i]

Check(p, i2, s2) ==
  IF i2.err # "" THEN "impl:" \o i2.err
  ELSE IF s2.err # "" THEN "spec:" \o s2.err
  ELSE LET outs == SumOf[p].outputs
           bad == {o \in outs : ~(o \in DOMAIN i2.sig /\ i2.sig[o].t = KindMap[s2.obj[o].t] /\ BitsAgree(s2.obj[o], i2.sig[o]))}
       IN IF bad = {} THEN "none" ELSE "mismatch:" \o (CHOOSE o \in bad : TRUE)

\* Power-up: the reset inputs are driven inactive from time zero (an input port left undefined during the initialisation
\* phase is outside the input space of the properties: `not (rst = '1')` holds for 'U', so an active-low asynchronous reset
\* branch - and its on_reset actions - would run during initialisation).  Reset asserted from the first step on is explored.
PowerUp(p) ==
  LET E == Adl(p)
      rs == {c \in 1..Len(E.ctxs) : E.ctxs[c].kind = "seq" /\ ~CIsNone(E.ctxs[c].reset)}
      ins == {Dn(p).inputs[i].n : i \in 1..Len(Dn(p).inputs)}        \* (a reference description may use an internal signal as reset)
  IN [n \in {E.ctxs[c].reset.port : c \in rs} \cap ins |->
        VSl(IF E.ctxs[CHOOSE c \in rs : E.ctxs[c].reset.port = n].reset.active_low = 1 THEN 1 ELSE 0)]

Init ==
  /\ pid \in 1..N
  /\ impl = InitState([FlatOf[pid] EXCEPT !.sigs = PowerUp(pid) @@ @])
  /\ spec = SpecInit(Adl(pid), SumOf[pid])
  /\ err = (IF impl.err # "" THEN "impl:" \o impl.err ELSE "none")
  /\ last = CEmptyFn
  /\ depth = 0
  /\ TLCSet(1000 + pid, {})
  /\ TLCSet(5000 + pid, 0)

ImplIn(p, in) == [n \in DOMAIN in |-> ToImpl(in[n])]

Step(in) ==
  LET p == pid
      i2 == Cycle(FlatOf[p], impl, ImplIn(p, in), Dn(p).clk)
      s2 == SpecStep(Adl(p), SumOf[p], spec, in, Dn(p).clk)
      undefined == s2.err = "undefined"
  IN /\ ~undefined            \* the source semantics leaves this input undefined: not explored
     /\ impl' = i2
     /\ spec' = s2
     /\ err' = Check(p, i2, s2)
     /\ last' = in
     /\ depth' = (IF Dn(p).maxdepth = 0 THEN 0 ELSE depth + 1)
     /\ UNCHANGED pid

\* inputs change without a clock edge (only for designs that ask for it: asynchronous resets, C04)
AStep(in) ==
  LET p == pid
      i2 == Drive(FlatOf[p], impl, ImplIn(p, in))
      s2 == SpecAsync(Adl(p), SumOf[p], spec, in)
  IN /\ Dn(p).async = 1
     /\ s2.err # "undefined"
     /\ impl' = i2
     /\ spec' = s2
     /\ err' = Check(p, i2, s2)
     /\ last' = in
     /\ UNCHANGED <<pid, depth>>

\* maxdepth = 0: explore until the reachable product closes; n > 0: input sequences of length n only
\* (used for stateless expression designs, where one step per operand valuation is exhaustive)
Next == /\ err = "none"
        /\ (Dn(pid).maxdepth = 0 \/ depth < Dn(pid).maxdepth)
        \* work budget per design (transitions generated so far, breadth-first): a design whose product
        \* does not close within the budget is reported as truncated in the evidence, never silently
        /\ TLCGet(5000 + pid) < Dn(pid).budget
        /\ \E in \in InSpace[pid] : Step(in) \/ AStep(in)

Spec == Init /\ [][Next]_vars

\* ---- reporting (batch mode): violations are printed, not fatal, so one run covers all designs
OutView(p, st) == [o \in SumOf[p].outputs |-> st.sig[o]]
Report ==
  /\ (err = "none" \/ PrintT(<<"VIOL", Dn(pid).id, err>>))
  /\ TLCSet(5000 + pid, TLCGet(5000 + pid) + 1)
  /\ (err # "none" \/ Cardinality(TLCGet(1000 + pid)) >= 3
        \/ TLCSet(1000 + pid, TLCGet(1000 + pid) \cup {OutView(pid, impl)}))

Stats == \A p \in 1..N : PrintT(<<"STAT", Dn(p).id, TLCGet(5000 + p), Cardinality(TLCGet(1000 + p))>>)

\* ---- single-design replay mode
NoViolation == err = "none"

View == <<pid, impl, spec, err, depth>>
=============================================================================
