SPECIFICATION Spec
