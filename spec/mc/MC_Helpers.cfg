SPECIFICATION Spec
