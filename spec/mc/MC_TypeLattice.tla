--------------------------- MODULE MC_TypeLattice ---------------------------
EXTENDS TypeLattice, Json, IOUtils, TLCExt

T(q, k, w) == [q |-> q, k |-> k, w |-> w]
MCUniverse ==
  { T("none", "bv", 2), T("none", "u", 2), T("none", "s", 2), T("none", "u", 3), T("none", "bv", 3),
    T("signal", "bv", 2), T("signal", "u", 2), T("signal", "s", 2), T("signal", "u", 3), T("signal", "u", 0), T("signal", "bv", 0),
    T("signal", "bit", 0), T("variable", "u", 2), T("variable", "bv", 2), T("temporary", "s", 2),
    T("port_in", "u", 2), T("port_in", "bv", 2), T("port_out", "u", 2), T("port_in", "s", 0),
    T("port_in", "s", 2), T("port_out", "s", 2), T("port_out", "s", 0), T("port_in", "u", 0) }
MCMaxLen == 4

\* every behaviour of maximal length is handed to the harness, which replays it into the real classes
Emit == Len(hist) < MCMaxLen \/ PrintT(<<"CASE", ToJson(hist)>>)

\* the documented relation over the universe, for the harness to compare issubclass() with
ASSUME PrintT(<<"INFO", "sub", ToJson({<<x, y>> \in MCUniverse \X MCUniverse : Sub(x, y)})>>)
=============================================================================
