SPECIFICATION Spec
CONSTANTS
  N = 3
  Vals = {0, 1}
  MaxHist = 5
PROPERTY Delivered
PROPERTY Drains
CHECK_DEADLOCK FALSE
