SPECIFICATION Spec
