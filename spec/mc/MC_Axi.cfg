SPECIFICATION Spec
CONSTRAINT Report
POSTCONDITION Walked
CHECK_DEADLOCK FALSE
