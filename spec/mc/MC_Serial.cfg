SPECIFICATION Spec
