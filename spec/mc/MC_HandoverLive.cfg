SPECIFICATION Spec
CONSTANTS
  Vals = {0, 1}
  MaxHist = 5
PROPERTY EventuallyReceived
PROPERTY ClearsAgain
CHECK_DEADLOCK FALSE
