SPECIFICATION Spec
CONSTANTS
  Accepted <- MCAccepted
  Rejected <- MCRejected
  MaxLen <- MCMaxLen
INVARIANT AtRest
INVARIANT Pure
CONSTRAINT Emit
CHECK_DEADLOCK FALSE
