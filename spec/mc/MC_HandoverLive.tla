-------------------------- MODULE MC_HandoverLive --------------------------
(***************************************************************************)
(* Design-level liveness of Handover.tla under fairness: with a consumer   *)
(* that keeps receiving whenever something is in flight, every payload     *)
(* sent is eventually received, and the producer eventually observes the   *)
(* slot as clear again ("the producer observes the flag as clear again     *)
(* only after the consumer has cleared it" - and it does get cleared).     *)
(***************************************************************************)
EXTENDS Handover, TLC
CONSTANTS Vals, MaxHist
VARIABLES slot, sent, received
vars == <<slot, sent, received>>
Init == slot = Empty /\ sent = << >> /\ received = << >>
Send(v) == /\ Len(sent) < MaxHist /\ Legal(slot, 1, 0)
           /\ slot' = Step(slot, 1, v, 0) /\ sent' = Append(sent, v) /\ UNCHANGED received
Receive == /\ Legal(slot, 0, 1)
           /\ slot' = Step(slot, 0, 0, 1) /\ received' = Append(received, slot.v) /\ UNCHANGED sent
Next == Receive \/ \E v \in Vals : Send(v)
Spec == Init /\ [][Next]_vars /\ WF_vars(Receive)
EventuallyReceived == \A n \in 1..MaxHist : (Len(sent) >= n) ~> (Len(received) >= n /\ received[n] = sent[n])
ClearsAgain == (slot.full = 1) ~> (slot.full = 0)
=============================================================================
