--------------------------- MODULE MC_ClassModel ---------------------------
(***************************************************************************)
(* Enumerates every hierarchy over 4 classes (A; B with bases in {A}; C    *)
(* with an ordered list of <= 2 bases from {A, B}; D with an ordered list  *)
(* of 1..2 bases from {A, B, C}) x every assignment of the member          *)
(* definitions (A always "leaf"), keeps the consistent ones and prints     *)
(* the method resolution order of D and what the member yields on a D.     *)
(***************************************************************************)
EXTENDS ClassModel, Json, TLC, TLCExt

Lists(S, maxlen) == {<< >>} \cup {<<a>> : a \in S} \cup (IF maxlen >= 2 THEN {<<p[1], p[2]>> : p \in {q \in S \X S : q[1] # q[2]}} ELSE {})
Defs == {"none", "leaf", "super"}

Hier == {<<[bases |-> << >>, def |-> "leaf"], [bases |-> bb, def |-> db], [bases |-> bc, def |-> dc], [bases |-> bd, def |-> dd]>> :
           bb \in Lists({1}, 1), db \in Defs, bc \in Lists({1, 2}, 2), dc \in Defs, bd \in Lists({1, 2, 3}, 2) \ {<< >>}, dd \in Defs}

ASSUME \A H \in Hier : PrintT(<<"CASE", ToJson([h |-> H, ok |-> Consistent(H),
                                                   mro |-> IF Consistent(H) THEN Lin(H, 4) ELSE << >>,
                                                   res |-> IF Consistent(H) THEN Lookup(H, 4) ELSE << >>])>>)
ASSUME PrintT(<<"STAT", "hierarchies", Cardinality(Hier)>>)
ASSUME PrintT(<<"STAT", "consistent", Cardinality({H \in Hier : Consistent(H)})>>)

VARIABLE x
Init == x = 0
Next == x' = x
Spec == Init /\ [][Next]_x
=============================================================================
