SPECIFICATION Spec
