------------------------- MODULE MC_HandoverDesign -------------------------
(* design-level: with history variables, received is a prefix of sent and at most one payload is in flight *)
EXTENDS Handover, TLC
CONSTANTS Vals, MaxHist
VARIABLES slot, sent, received
vars == <<slot, sent, received>>
Init == slot = Empty /\ sent = << >> /\ received = << >>
Next == /\ Len(sent) < MaxHist
        /\ \E s \in {0, 1}, r \in {0, 1}, v \in Vals :
             /\ Legal(slot, s, r)
             /\ slot' = Step(slot, s, v, r)
             /\ sent' = IF s = 1 THEN Append(sent, v) ELSE sent
             /\ received' = IF r = 1 THEN Append(received, slot.v) ELSE received
Spec == Init /\ [][Next]_vars
ExactlyOnceInOrder == /\ Len(received) <= Len(sent) /\ Len(sent) - Len(received) \in {0, 1}
                      /\ \A i \in 1..Len(received) : received[i] = sent[i]
                      /\ (slot.full = 1) = (Len(sent) - Len(received) = 1)
=============================================================================
