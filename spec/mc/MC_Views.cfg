SPECIFICATION Spec
CONSTANTS
  W = 4
  MaxViews = 2
  MaxSteps = 3
  RootKind = "bv"
PROPERTY WriteIsLocal
CONSTRAINT Emit
CHECK_DEADLOCK FALSE
