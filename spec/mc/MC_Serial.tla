------------------------------ MODULE MC_Serial ------------------------------
(***************************************************************************)
(* Validation of recorded serialisation results (C17) against Serial.tla.  *)
(* case = [t (type expr), b (pattern fed to from_bits), leaves (patterns   *)
(* read from the fields of the real object, declaration order), back       *)
(* (to_bits of that object), cnt (count_bits(T)), w2 (width of to_bits),    *)
(* built (to_bits of the object constructed field by field from the        *)
(* leaves)]                                                                 *)
(***************************************************************************)
EXTENDS Serial, Json, IOUtils, TLC, TLCExt
Obs == JsonDeserialize(IOEnv.OBS_FILE)
Cases == Obs.cases
N == Len(Cases)

RECURSIVE LeafWidths(_), FieldWidths(_, _)
LeafWidths(T) == CASE T.k = "leaf" -> <<T.w>>
                   [] T.k = "arr" -> FieldWidths([i \in 1..T.n |-> T.el], 1)
                   [] T.k = "rec" -> FieldWidths(T.fields, 1)
FieldWidths(fs, i) == IF i > Len(fs) THEN << >> ELSE LeafWidths(fs[i]) \o FieldWidths(fs, i + 1)

Verdict(c) ==
  LET w == WidthOf(c.t)
      bits == FromInt(c.b, w)
      exp == Leaves(c.t, bits)
      lw == LeafWidths(c.t)
  IN IF c.cnt # w THEN "count_bits"
     ELSE IF c.w2 # w THEN "to_bits-width"
     ELSE IF c.back # c.b THEN "roundtrip-bits"               \* to_bits(from_bits[T](b)) == b
     ELSE IF Len(c.leaves) # Len(exp) THEN "leaf-count"
     ELSE IF \E i \in 1..Len(exp) : FromInt(c.leaves[i], lw[i]) # exp[i] THEN "layout"     \* documented layout
     ELSE IF c.built # -1 /\ c.built # c.b THEN "roundtrip-value"   \* from_bits(to_bits(x)) == x via reconstruction
     ELSE "ok"

ASSUME \A i \in 1..N : LET v == Verdict(Cases[i]) IN v = "ok" \/ PrintT(<<"VIOL", i, v>>)
ASSUME PrintT(<<"STAT", "cases", N>>)
VARIABLE x
Init == x = 0
Next == x' = x
Spec == Init /\ [][Next]_x
=============================================================================
