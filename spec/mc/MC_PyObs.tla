------------------------------ MODULE MC_PyObs ------------------------------
(***************************************************************************)
(* Validation of Python-level observations of the primitive types (C09):   *)
(* every recorded (operation, operand kinds/widths/values, observed result *)
(* kind/width/value or exception) must be what the source semantics CoExpr *)
(* yields for the same operation on literal operands.  Together with C02   *)
(* (emitted logic = CoExpr for all run-time values) this gives             *)
(* "compile-time evaluation = emitted run-time logic".                     *)
(*                                                                         *)
(* case = <<op, ka, wa, va, kb, wb, vb, rk, rw, rv>>  (k = "" for a unary   *)
(* operation's second operand; "int" operands carry the value in v; rk =   *)
(* "err" when Python raised, "none" when the result was an uninitialised   *)
(* value)                                                                  *)
(***************************************************************************)
EXTENDS CoExpr, Json, IOUtils, TLC, TLCExt

Obs == JsonDeserialize(IOEnv.OBS_FILE)
Cases == Obs.cases
N == Len(Cases)

Operand(k, w, v) == IF k = "int" THEN [k |-> "int", v |-> v]
                    ELSE [k |-> "lit", ty |-> [k |-> k, w |-> w], v |-> v]

UnOps == {"inv", "neg", "abs", "bool", "not"}

ExprOf(c) ==
  IF c[1] \in UnOps THEN [k |-> "un", op |-> c[1], e |-> Operand(c[2], c[3], c[4])]
  ELSE IF c[1] = "resize" THEN [k |-> "resize", e |-> Operand(c[2], c[3], c[4]), w |-> c[7]]
  ELSE IF c[1] = "view" THEN [k |-> "view", e |-> Operand(c[2], c[3], c[4]), to |-> c[5]]
  ELSE IF c[1] = "slice" THEN [k |-> "slice", e |-> Operand(c[2], c[3], c[4]), hi |-> c[6], lo |-> c[7]]
  ELSE IF c[1] = "idx" THEN [k |-> "idx", e |-> Operand(c[2], c[3], c[4]), i |-> c[7]]
  ELSE [k |-> "bin", op |-> c[1], l |-> Operand(c[2], c[3], c[4]), r |-> Operand(c[5], c[6], c[7])]

EmptyRd == [x \in {} |-> 0]

\* observed result as a CoExpr value
Observed(c) ==
  LET rk == c[8] rw == c[9] rv == c[10] IN
  IF rk = "int" THEN CInt(rv)
  ELSE IF rk = "bool" THEN CV("bool", rv)
  ELSE IF rk = "bit" THEN CBit(rv)
  ELSE CV(rk, FromInt(rv, rw))

Verdict(c) ==
  LET s == CEval(ExprOf(c), EmptyRd) IN
  IF CIsErr(s) THEN
       IF s.v = "undefined" THEN "ok"                 \* the semantics leaves it open (division by zero, ...)
       ELSE IF c[8] = "err" THEN "ok"                  \* rejected by both
       ELSE "accepted-but-spec-rejects"
  ELSE IF c[8] = "err" THEN "fold-raises"
  ELSE IF c[8] = "none" THEN "fold-yields-uninitialised"
  ELSE LET o == Observed(c) IN
       IF o.t # s.t THEN "result-kind"
       ELSE IF (s.t \in {"bv", "u", "s"}) /\ Len(o.v) # Len(s.v) THEN "result-width"
       ELSE IF o.v # s.v THEN "result-value"
       ELSE "ok"

ASSUME \A i \in 1..N : LET v == Verdict(Cases[i]) IN v = "ok" \/ PrintT(<<"VIOL", i, v>>)
ASSUME PrintT(<<"STAT", "cases", N>>)

VARIABLE x
Init == x = 0
Next == x' = x
Spec == Init /\ [][Next]_x
=============================================================================
