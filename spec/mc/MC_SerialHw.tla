---------------------------- MODULE MC_SerialHw ----------------------------
(***************************************************************************)
(* C17, emitted logic: "The layout is the documented one ... identical at  *)
(* compile time and in emitted logic".  For every recorded wrapper design  *)
(*   x = std.from_bits[T](b);  back <= std.to_bits(x);  l<i> <= to_bits of *)
(*   the i-th leaf of x (declaration / element order)                      *)
(* the emitted VHDL (interpreted by VhdlSem) is driven with EVERY pattern   *)
(* of the input b and its outputs are compared with Serial.tla.            *)
(* design = [id, ast, top, t (type expr), n (number of leaves)]            *)
(***************************************************************************)
EXTENDS VhdlSem, Serial, Json, IOUtils, TLCExt

Obs == JsonDeserialize(IOEnv.OBS_FILE)
N == Len(Obs.designs)
Dn(p) == Obs.designs[p]
FlatOf == [p \in 1..N |-> Elab(Dn(p).ast, Dn(p).top, {"*"})]

LeafName(i) == "l" \o ToString(i - 1)

Verdict(p, b) ==
  LET T == Dn(p).t
      w == WidthOf(T)
      bits == FromInt(b, w)
      exp == Leaves(T, bits)
      s0 == InitState(FlatOf[p])
      st == Drive(FlatOf[p], s0, "b" :> V("slv", bits))
      bitsOf(v) == IF v.t = "sl" THEN <<v.v>> ELSE v.v
  IN IF s0.err # "" THEN "impl:" \o s0.err
     ELSE IF st.err # "" THEN "impl:" \o st.err
     ELSE IF Len(exp) # Dn(p).n THEN "leaf-count"
     ELSE IF bitsOf(st.sig["back"]) # bits THEN "roundtrip-bits"
     ELSE IF \E i \in 1..Len(exp) : bitsOf(st.sig[LeafName(i)]) # exp[i] THEN "layout"
     ELSE "ok"

ASSUME \A p \in 1..N : \A b \in 0..(2 ^ WidthOf(Dn(p).t) - 1) :
          LET v == Verdict(p, b) IN v = "ok" \/ PrintT(<<"VIOL", Dn(p).id, b, v>>)
ASSUME PrintT(<<"STAT", "designs", N>>)
RECURSIVE Patterns(_)
Patterns(p) == IF p > N THEN 0 ELSE 2 ^ WidthOf(Dn(p).t) + Patterns(p + 1)
ASSUME PrintT(<<"STAT", "patterns", Patterns(1)>>)

VARIABLE x
Init == x = 0
Next == x' = x
Spec == Init /\ [][Next]_x
=============================================================================
