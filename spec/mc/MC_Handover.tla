---------------------------- MODULE MC_Handover ----------------------------
(***************************************************************************)
(* C15 product: a compiled two-process wrapper around std.Mailbox /        *)
(* std.SyncFlag (emitted VHDL under VhdlSem) against the one-slot          *)
(* abstraction of Handover.tla.  The environment chooses, at every step,   *)
(* which clock ticks (one common clock, or either of two unrelated clocks) *)
(* whether the producer attempts to send (and what) and whether the        *)
(* consumer is willing to receive.  The wrapper reports what its contexts  *)
(* did on the one-clock strobes accsend / accrecv.                         *)
(***************************************************************************)
EXTENDS VhdlSem, Handover, Json, IOUtils, TLCExt

Obs == JsonDeserialize(IOEnv.OBS_FILE)
NDesigns == Len(Obs.designs)
Dn(p) == Obs.designs[p]
FlatOf == [p \in 1..NDesigns |-> Elab(Dn(p).ast, Dn(p).top, {})]

VARIABLES pid, impl, slot, err, last
vars == <<pid, impl, slot, err, last>>

W(p) == Dn(p).w
Two(p) == Dn(p).twoclocks = 1
BitIs(x, b) == x.t = "sl" /\ x.v = b
VecIs(x, n) == IsVec(x) /\ Known(x.v) /\ ToNat(x.v) = n

Moves(p) == {[send |-> s, v |-> v, recv |-> r, clk |-> c] :
               s \in {0, 1}, v \in 0..(2 ^ W(p) - 1), r \in {0, 1}, c \in (IF Two(p) THEN {"clka", "clkb"} ELSE {"clk"})}

DataIn(p, m) == ("send" :> VSl(m.send)) @@ ("recv" :> VSl(m.recv)) @@ ("din" :> V("slv", FromInt(m.v, W(p))))
\* the clock that does not tick stays low
Tick(p, st, m) ==
  IF Two(p) THEN Cycle(FlatOf[p], Drive(FlatOf[p], st, (IF m.clk = "clka" THEN "clkb" ELSE "clka") :> VSl(0)), DataIn(p, m), m.clk)
  ELSE Cycle(FlatOf[p], st, DataIn(p, m), "clk")

Quiet(p) == [send |-> 0, v |-> 0, recv |-> 0, clk |-> IF Two(p) THEN "clka" ELSE "clk"]

Init ==
  /\ pid \in 1..NDesigns
  /\ impl = Tick(pid, InitState(FlatOf[pid]), Quiet(pid))
  /\ slot = Empty
  /\ err = (IF impl.err # "" THEN "impl:" \o impl.err ELSE "none")
  /\ last = Quiet(pid)
  /\ TLCSet(1000 + pid, {}) /\ TLCSet(5000 + pid, 0)

MStep(m) ==
  LET p == pid
      i2 == Tick(p, impl, m)
      \* a context's strobe is meaningful only in steps where its own clock ticked
      prodTicks == ~Two(p) \/ m.clk = "clka"
      consTicks == ~Two(p) \/ m.clk = "clkb"
      sent == IF prodTicks /\ BitIs(i2.sig["accsend"], 1) THEN 1 ELSE 0
      rcvd == IF consTicks /\ BitIs(i2.sig["accrecv"], 1) THEN 1 ELSE 0
      e == IF i2.err # "" THEN "impl:" \o i2.err
           ELSE IF i2.fired # {} THEN "assert-fired"
           ELSE IF sent = 1 /\ m.send = 0 THEN "sent-without-request"
           ELSE IF rcvd = 1 /\ m.recv = 0 THEN "received-without-request"
           ELSE IF sent = 1 /\ slot.full = 1 THEN "send-accepted-while-payload-in-flight"      \* a payload is lost
           ELSE IF rcvd = 1 /\ slot.full = 0 THEN "received-a-consumed-or-never-sent-event"    \* duplicate / ghost
           ELSE IF rcvd = 1 /\ Dn(p).payload = 1 /\ ~VecIs(i2.sig["dout"], slot.v) THEN "payload-modified"
           ELSE "none"
  IN /\ impl' = i2
     /\ slot' = (IF e = "none" THEN Step(slot, sent, m.v, rcvd) ELSE slot)
     /\ err' = e
     /\ last' = m
     /\ UNCHANGED pid

Next == /\ err = "none" /\ TLCGet(5000 + pid) < Dn(pid).budget /\ \E m \in Moves(pid) : MStep(m)
Spec == Init /\ [][Next]_vars

\* liveness (thorough tier, no state constraint): a payload in flight is eventually received when the consumer keeps being willing
Report ==
  /\ (err = "none" \/ PrintT(<<"VIOL", Dn(pid).id, err>>))
  /\ TLCSet(5000 + pid, TLCGet(5000 + pid) + 1)
  /\ (err # "none" \/ Cardinality(TLCGet(1000 + pid)) >= 3 \/ TLCSet(1000 + pid, TLCGet(1000 + pid) \cup {slot}))
Stats == \A p \in 1..NDesigns : PrintT(<<"STAT", Dn(p).id, TLCGet(5000 + p), Cardinality(TLCGet(1000 + p))>>)
NoViolation == err = "none"
View == <<pid, impl, slot, err>>
=============================================================================
