------------------------------ MODULE MC_Comp ------------------------------
(***************************************************************************)
(* C14: product of a compiled wrapper entity around std.Fifo / std.Stack   *)
(* (emitted VHDL interpreted by VhdlSem) with the abstract container of    *)
(* Containers.tla.  The environment is every per-clock choice of           *)
(* {push(v), pop, both, reset, none} that respects the documented          *)
(* preconditions, gated - as a user would - on the wrapper's own           *)
(* full/empty outputs.  After every clock: the popped value, front,        *)
(* empty/full/size must agree with the abstract container, and no library  *)
(* assertion may have fired.                                               *)
(*                                                                         *)
(* wrapper ports: clk push pop [rs] din dout empty full [size] [front]     *)
(***************************************************************************)
EXTENDS VhdlSem, Containers, Json, IOUtils, TLCExt

Obs == JsonDeserialize(IOEnv.OBS_FILE)
NDesigns == Len(Obs.designs)
Dn(p) == Obs.designs[p]
FlatOf == [p \in 1..NDesigns |-> Elab(Dn(p).ast, Dn(p).top, {})]

VARIABLES pid, impl, abs, lastpop, err, last
vars == <<pid, impl, abs, lastpop, err, last>>

IsFifo(p) == Dn(p).kind = "fifo"
W(p) == Dn(p).w
ValsOf(p) == 0..(2 ^ W(p) - 1)
Ops(p) == {[push |-> a, v |-> v, pop |-> o, reset |-> r] :
             a \in {0, 1}, v \in ValsOf(p), o \in {0, 1}, r \in (IF IsFifo(p) THEN {0} ELSE {0, 1})}

Out(p, st, n) == st.sig[n]
BitIs(x, b) == x.t = "sl" /\ x.v = b
VecIs(x, n) == IsVec(x) /\ Known(x.v) /\ ToNat(x.v) = n

\* what the user sees: gate on the wrapper's own indications (also with delays configured)
ImplAllows(p, op) ==
  /\ (op.push = 1 /\ ~(~IsFifo(p) /\ Dn(p).dropold = 1) => BitIs(Out(p, impl, "full"), 0))
  /\ (op.pop = 1 => BitIs(Out(p, impl, "empty"), 0))

SpecLegal(p, op) == IF IsFifo(p) THEN FifoLegal(abs, Dn(p).n, op)
                    ELSE StackLegal(abs, Dn(p).n, op, Dn(p).dropold = 1)

InputsOf(p, op) ==
  ("push" :> VSl(op.push)) @@ ("pop" :> VSl(op.pop)) @@ ("din" :> V("slv", FromInt(op.v, W(p))))
  @@ (IF IsFifo(p) THEN [x \in {} |-> 0] ELSE ("rs" :> VSl(op.reset)))

Check(p, i2, a2, popv, op) ==
  IF i2.err # "" THEN "impl:" \o i2.err
  ELSE IF i2.fired # {} THEN "assert-fired"
  ELSE IF Dn(p).exact = 1 /\ ~BitIs(Out(p, i2, "empty"), IF a2 = << >> THEN 1 ELSE 0) THEN "empty-indication"
  ELSE IF Dn(p).exact = 1 /\ ~BitIs(Out(p, i2, "full"), IF Len(a2) = (IF IsFifo(p) THEN FifoCap(Dn(p).n) ELSE StackCap(Dn(p).n)) THEN 1 ELSE 0)
       THEN "full-indication"
  ELSE IF op.pop = 1 /\ ~VecIs(Out(p, i2, "dout"), popv) THEN "popped-value"
  ELSE IF Dn(p).hassize = 1 /\ ~VecIs(Out(p, i2, "size"), Len(a2)) THEN "size"
  ELSE IF Dn(p).hasfront = 1 /\ a2 # << >> /\ ~VecIs(Out(p, i2, "front"), IF IsFifo(p) THEN Head(a2) ELSE a2[Len(a2)]) THEN "front"
  ELSE "none"

Init ==
  /\ pid \in 1..NDesigns
  /\ impl = Cycle(FlatOf[pid], InitState(FlatOf[pid]), InputsOf(pid, [push |-> 0, v |-> 0, pop |-> 0, reset |-> 0]), "clk")
  /\ abs = << >>
  /\ lastpop = 0
  /\ err = (IF impl.err # "" THEN "impl:" \o impl.err ELSE "none")
  /\ last = [push |-> 0, v |-> 0, pop |-> 0, reset |-> 0]
  /\ TLCSet(1000 + pid, {}) /\ TLCSet(5000 + pid, 0)

\* "gated" wrappers (used with delays, where the indications are only meaningful inside the producer's /
\* consumer's own context): the design itself pushes only `if push and not fifo.full()` and pops only
\* `if pop and not fifo.empty()`, and reports what it did on the strobes accpush / accpop.  The environment
\* is then unconstrained; every operation the design performed must be legal for the abstract container.
GatedStep(op) ==
  LET p == pid
      i2 == Cycle(FlatOf[p], impl, InputsOf(p, op), "clk")
      did == [push |-> IF BitIs(Out(p, i2, "accpush"), 1) THEN 1 ELSE 0, v |-> op.v,
              pop |-> IF BitIs(Out(p, i2, "accpop"), 1) THEN 1 ELSE 0, reset |-> 0]
      legal == FifoLegal(abs, Dn(p).n, did) /\ (did.push = 1 => op.push = 1) /\ (did.pop = 1 => op.pop = 1)
      a2 == FifoStep(abs, did)
      popv == IF did.pop = 1 THEN FifoPopped(abs) ELSE lastpop
  IN /\ op.reset = 0
     /\ IF i2.err # "" THEN impl' = i2 /\ abs' = abs /\ lastpop' = lastpop /\ err' = "impl:" \o i2.err
        ELSE IF ~legal THEN impl' = impl /\ abs' = abs /\ lastpop' = lastpop /\ err' = "performed-illegal-operation"
        ELSE impl' = i2 /\ abs' = a2 /\ lastpop' = popv
             /\ err' = (IF i2.fired # {} THEN "assert-fired"
                        ELSE IF did.pop = 1 /\ ~VecIs(Out(p, i2, "dout"), popv) THEN "popped-value"
                        ELSE "none")
     /\ last' = op
     /\ UNCHANGED pid

Step(op) ==
  LET p == pid
      i2 == Cycle(FlatOf[p], impl, InputsOf(p, op), "clk")
      a2 == IF IsFifo(p) THEN FifoStep(abs, op) ELSE StackStep(abs, Dn(p).n, op)
      popv == IF op.pop = 1 THEN (IF IsFifo(p) THEN FifoPopped(abs) ELSE StackPopped(abs)) ELSE lastpop
      \* a user gating on the indications must never be led into a precondition violation
      gateErr == IF ImplAllows(p, op) /\ ~SpecLegal(p, op) THEN "indication-allows-illegal-operation" ELSE "none"
  IN /\ Dn(p).gated = 0
     /\ ImplAllows(p, op)
     /\ (op.push + op.pop + op.reset <= 1 \/ IsFifo(p))
     /\ IF gateErr # "none"
          THEN impl' = impl /\ abs' = abs /\ lastpop' = lastpop /\ err' = gateErr
          ELSE impl' = i2 /\ abs' = a2 /\ lastpop' = popv /\ err' = Check(p, i2, a2, popv, op)
     /\ last' = op
     /\ UNCHANGED pid

Next == /\ err = "none"
        /\ TLCGet(5000 + pid) < Dn(pid).budget
        /\ \E op \in Ops(pid) : Step(op) \/ (Dn(pid).gated = 1 /\ GatedStep(op))
Spec == Init /\ [][Next]_vars

Report ==
  /\ (err = "none" \/ PrintT(<<"VIOL", Dn(pid).id, err>>))
  /\ TLCSet(5000 + pid, TLCGet(5000 + pid) + 1)
  /\ (err # "none" \/ Cardinality(TLCGet(1000 + pid)) >= 3 \/ TLCSet(1000 + pid, TLCGet(1000 + pid) \cup {abs}))
Stats == \A p \in 1..NDesigns : PrintT(<<"STAT", Dn(p).id, TLCGet(5000 + p), Cardinality(TLCGet(1000 + p))>>)
NoViolation == err = "none"
View == <<pid, impl, abs, lastpop, err>>
=============================================================================
