----------------------------- MODULE MC_FixedHw -----------------------------
(***************************************************************************)
(* C19 on emitted logic: wrapper designs                                   *)
(*   x = from_bits[Fmt1](a); y = from_bits[Fmt2](b); o <= to_bits(x op y)  *)
(*   x = from_bits[Fmt1](a); o <= to_bits(x.resize(l2, r2, styles))        *)
(* are interpreted by VhdlSem for EVERY pair of raw operand values and the *)
(* raw result is judged by Fixed.CaseOk, the same predicate that judges    *)
(* the Python-level results.                                               *)
(* design = [id, ast, top, op, sg, l1, r1, l2, r2, p1, p2, lo, ro]         *)
(***************************************************************************)
EXTENDS VhdlSem, Fixed, Json, IOUtils, TLCExt

Obs == JsonDeserialize(IOEnv.OBS_FILE)
N == Len(Obs.designs)
Dn(p) == Obs.designs[p]
FlatOf == [p \in 1..N |-> Elab(Dn(p).ast, Dn(p).top, {"*"})]

Raws(sg, l, r) == MinRaw(sg = 1, l, r)..MaxRaw(sg = 1, l, r)
RawOf(sg, bits) == IF sg = 1 THEN ToInt(bits) ELSE ToNat(bits)
Binary(p) == Dn(p).op \in {"add", "sub", "mul"}

Verdict(p, n1, n2) ==
  LET d == Dn(p)
      s0 == InitState(FlatOf[p])
      ina == "a" :> V("slv", FromInt(n1, Width(d.l1, d.r1)))
      inb == IF Binary(p) THEN "b" :> V("slv", FromInt(n2, Width(d.l2, d.r2))) ELSE EmptyFn
      st == Drive(FlatOf[p], s0, ina @@ inb)
      o == st.sig["o"]
  IN IF s0.err # "" THEN "impl:" \o s0.err
     ELSE IF st.err # "" THEN "impl:" \o st.err
     ELSE IF Len(o.v) # Width(d.lo, d.ro) THEN "result-width"
     ELSE IF ~Known(o.v) THEN "undefined-result"
     ELSE IF CaseOk(<<d.op, d.sg, d.l1, d.r1, n1, d.l2, d.r2, n2, d.p1, d.p2, d.lo, d.ro, RawOf(d.sg, o.v)>>) THEN "ok"
     ELSE "value"

ASSUME \A p \in 1..N : \A n1 \in Raws(Dn(p).sg, Dn(p).l1, Dn(p).r1) :
          \A n2 \in (IF Binary(p) THEN Raws(Dn(p).sg, Dn(p).l2, Dn(p).r2) ELSE {0}) :
             LET v == Verdict(p, n1, n2) IN
             v = "ok" \/ PrintT(<<"VIOL", Dn(p).id, n1, n2, v, IF v = "value" THEN RawOf(Dn(p).sg, Drive(FlatOf[p], InitState(FlatOf[p]),
                                  ("a" :> V("slv", FromInt(n1, Width(Dn(p).l1, Dn(p).r1)))) @@
                                  (IF Binary(p) THEN "b" :> V("slv", FromInt(n2, Width(Dn(p).l2, Dn(p).r2))) ELSE EmptyFn)).sig["o"].v) ELSE 0>>)
RECURSIVE Count(_)
Count(p) == IF p > N THEN 0
            ELSE Cardinality(Raws(Dn(p).sg, Dn(p).l1, Dn(p).r1)) * (IF Binary(p) THEN Cardinality(Raws(Dn(p).sg, Dn(p).l2, Dn(p).r2)) ELSE 1) + Count(p + 1)
ASSUME PrintT(<<"STAT", "designs", N>>)
ASSUME PrintT(<<"STAT", "evaluations", Count(1)>>)

VARIABLE x
Init == x = 0
Next == x' = x
Spec == Init /\ [][Next]_x
=============================================================================
