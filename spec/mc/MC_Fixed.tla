------------------------------ MODULE MC_Fixed ------------------------------
(***************************************************************************)
(* Validation of recorded SFixed/UFixed results (C19) against Fixed.tla.   *)
(* case = <<op, signed(0/1), l1, r1, raw1, l2, r2, raw2, p1, p2, lo, ro, rawo>> *)
(*  add/sub/mul: operand 2 = second operand;                                *)
(*  resize: l2:r2 = target format, p1 = round (0/1), p2 = saturate (0/1)    *)
(*  eq: rawo = 1/0 ; conv: operand 1 converted to format l2:r2              *)
(***************************************************************************)
EXTENDS Fixed, Sequences, Json, IOUtils, TLC, TLCExt

Obs == JsonDeserialize(IOEnv.OBS_FILE)
Cases == Obs.cases
N == Len(Cases)

Ok(c) ==
  LET op == c[1] sg == c[2] = 1
      l1 == c[3] r1 == c[4] n1 == c[5] l2 == c[6] r2 == c[7] n2 == c[8]
      lo == c[11] ro == c[12] no == c[13]
      base == MinI(MinI(r1, r2), ro)
      inRange == no >= MinRaw(sg, lo, ro) /\ no <= MaxRaw(sg, lo, ro)
  IN
  CASE op = "add" -> inRange /\ Scale(no, ro, base) = AddExact(n1, r1, n2, r2, base)
    [] op = "sub" ->
         LET exact == SubExact(n1, r1, n2, r2, base) IN
         IF sg \/ exact >= 0 THEN inRange /\ Scale(no, ro, base) = exact
         ELSE \* "UFixed subtraction wraps modulo the result range when the difference is negative"
              inRange /\ ro <= base + 0 /\ Scale(no, ro, base) = exact + P2(lo + 1 - base)
    [] op = "mul" -> inRange /\ (LET b2 == MinI(r1 + r2, ro) IN Scale(no, ro, b2) = Scale(MulExact(n1, r1, n2, r2), r1 + r2, b2))
    [] op = "resize" -> lo = l2 /\ ro = r2 /\ no = Resize(sg, n1, r1, l2, r2, c[9] = 1, c[10] = 1)
    [] op = "conv" -> \* construction from another format: the number is preserved whenever it is representable
         LET exactRaw == IF r2 <= r1 THEN n1 * P2(r1 - r2) ELSE -999999
             representable == r2 <= r1 /\ exactRaw >= MinRaw(sg, l2, r2) /\ exactRaw <= MaxRaw(sg, l2, r2)
         IN ~representable \/ (lo = l2 /\ ro = r2 /\ no = exactRaw)
    [] op = "eq" -> (no = 1) <=> (Scale(n1, r1, MinI(r1, r2)) = Scale(n2, r2, MinI(r1, r2)))
    [] OTHER -> FALSE

ASSUME \A i \in 1..N : Ok(Cases[i]) \/ PrintT(<<"VIOL", i, Cases[i][1]>>)
ASSUME PrintT(<<"STAT", "cases", N>>)

VARIABLE x
Init == x = 0
Next == x' = x
Spec == Init /\ [][Next]_x
=============================================================================
