------------------------------ MODULE MC_Fixed ------------------------------
(***************************************************************************)
(* Validation of recorded SFixed/UFixed results (C19) against Fixed.tla.   *)
(* case = <<op, signed(0/1), l1, r1, raw1, l2, r2, raw2, p1, p2, lo, ro, rawo>> *)
(*  add/sub/mul: operand 2 = second operand;                                *)
(*  resize: l2:r2 = target format, p1 = round (0/1), p2 = saturate (0/1)    *)
(*  eq: rawo = 1/0 ; conv: operand 1 converted to format l2:r2              *)
(***************************************************************************)
EXTENDS Fixed, Sequences, Json, IOUtils, TLC, TLCExt

Obs == JsonDeserialize(IOEnv.OBS_FILE)
Cases == Obs.cases
N == Len(Cases)

Ok(c) == CaseOk(c)

ASSUME \A i \in 1..N : Ok(Cases[i]) \/ PrintT(<<"VIOL", i, Cases[i][1]>>)
ASSUME PrintT(<<"STAT", "cases", N>>)

VARIABLE x
Init == x = 0
Next == x' = x
Spec == Init /\ [][Next]_x
=============================================================================
