SPECIFICATION Spec
