------------------------------ MODULE MC_Views ------------------------------
EXTENDS Views, Json, TLCExt
Emit == Len(hist) < MaxSteps \/ PrintT(<<"CASE", ToJson(hist)>>)
=============================================================================
