SPECIFICATION Spec
