------------------------------- MODULE MC_Axi -------------------------------
(***************************************************************************)
(* C20 product: the emitted VHDL of an AXI4-Lite register-map wrapper      *)
(* (VhdlSem) against the channel monitor of AxiLite.tla, driven by a       *)
(* protocol-conforming master whose per-clock intents come from recorded   *)
(* intent traces (trace-spec style: position l in trace tid).              *)
(* The master holds every valid it raised, with stable payload, until the  *)
(* slave's ready (its obligation); its readies toggle freely.              *)
(* intent = [aw (0 = none, else index into Addrs), w (0 = none, else index *)
(* into Beats), b (bready), ar, r (rready)]                                *)
(***************************************************************************)
EXTENDS VhdlSem, AxiLite, Json, IOUtils, TLCExt

Obs == JsonDeserialize(IOEnv.OBS_FILE)
Dn == Obs.design
Flat == Elab(Dn.ast, Dn.top, {"*"})     \* library code keeps state in variables without default: no poisoning
Traces == Obs.traces
NT == Len(Traces)

\* payload sets (32-bit words as four bytes, most significant first)
WordOf(bs) == FromInt(bs[4], 8) \o FromInt(bs[3], 8) \o FromInt(bs[2], 8) \o FromInt(bs[1], 8)
Addrs == Obs.addrs                                   \* sequence of addresses
Beats == [i \in 1..Len(Obs.beats) |-> [d |-> WordOf(Obs.beats[i].d), s |-> [j \in 1..4 |-> Obs.beats[i].s[j]]]]
Layout == [a \in {Obs.layout[i].a : i \in 1..Len(Obs.layout)} |-> Obs.layout[CHOOSE i \in 1..Len(Obs.layout) : Obs.layout[i].a = a].kind]
Entry(a) == Obs.layout[CHOOSE i \in 1..Len(Obs.layout) : Obs.layout[i].a = a]
PortOf == [a \in DOMAIN Layout |-> Entry(a).port]
\* the word an "input" register's hardware signal shows (constant over a trace), driven on port i_in
HasInput == "inval" \in DOMAIN Obs
InVal == IF HasInput THEN WordOf(Obs.inval) ELSE Zeros(32)
InputRegs == [a \in {x \in DOMAIN Layout : Layout[x] = "input"} |-> InVal]
CntRegs == {x \in DOMAIN Layout : Layout[x] = "cnt"}

VARIABLES tid, l, impl, mon, mst, err
vars == <<tid, l, impl, mon, mst, err>>

Idle == [aw |-> [on |-> 0, a |-> 0], w |-> [on |-> 0, d |-> Zeros(32), s |-> Zeros(4)], ar |-> [on |-> 0, a |-> 0]]

U32(n) == V("u", FromInt(n, 30) \o <<0, 0>>)
Inputs(ms, it, rst) ==
  (IF HasInput THEN "i_in" :> V("slv", InVal) ELSE EmptyFn) @@
  [x \in {"reset", "axi_awaddr", "axi_awprot", "axi_awvalid", "axi_wdata", "axi_wstrb", "axi_wvalid", "axi_bready",
          "axi_araddr", "axi_arprot", "axi_arvalid", "axi_rready"} |->
     CASE x = "reset" -> VSl(rst)
       [] x = "axi_awaddr" -> U32(ms.aw.a) [] x = "axi_awprot" -> V("u", Zeros(3)) [] x = "axi_awvalid" -> VSl(ms.aw.on)
       [] x = "axi_wdata" -> V("slv", ms.w.d) [] x = "axi_wstrb" -> V("slv", ms.w.s) [] x = "axi_wvalid" -> VSl(ms.w.on)
       [] x = "axi_bready" -> VSl(it.b)
       [] x = "axi_araddr" -> U32(ms.ar.a) [] x = "axi_arprot" -> V("u", Zeros(3)) [] x = "axi_arvalid" -> VSl(ms.ar.on)
       [] x = "axi_rready" -> VSl(it.r)]

\* the master raises a valid only when it is not already holding one on that channel
Raise(ms, it) ==
  [aw |-> IF ms.aw.on = 1 \/ it.aw = 0 THEN ms.aw ELSE [on |-> 1, a |-> Addrs[it.aw]],
   w |-> IF ms.w.on = 1 \/ it.w = 0 THEN ms.w ELSE [on |-> 1, d |-> Beats[it.w].d, s |-> Beats[it.w].s],
   ar |-> IF ms.ar.on = 1 \/ it.ar = 0 THEN ms.ar ELSE [on |-> 1, a |-> Addrs[it.ar]]]

B(st, n) == IF st.sig[n].t = "sl" /\ st.sig[n].v = 1 THEN 1 ELSE 0
ObsOf(st, ms, it) ==
  [awv |-> ms.aw.on, awr |-> B(st, "axi_awready"), awa |-> ms.aw.a,
   wv |-> ms.w.on, wr |-> B(st, "axi_wready"), wd |-> ms.w.d, ws |-> ms.w.s,
   bv |-> B(st, "axi_bvalid"), br |-> it.b, bresp |-> st.sig["axi_bresp"].v,
   arv |-> ms.ar.on, arr |-> B(st, "axi_arready"), ara |-> ms.ar.a,
   rv |-> B(st, "axi_rvalid"), rr |-> it.r, rdata |-> st.sig["axi_rdata"].v, rresp |-> st.sig["axi_rresp"].v]

ResetCycle(st) == Cycle(Flat, st, Inputs(Idle, [aw |-> 0, w |-> 0, b |-> 0, ar |-> 0, r |-> 0], 1), "clk")

Init ==
  /\ tid \in 1..NT
  /\ l = 1
  /\ impl = ResetCycle(ResetCycle(InitState(Flat)))
  /\ mon = MonInitWith(Layout, InputRegs)
  /\ mst = Idle
  /\ err = (IF impl.err # "" THEN "impl:" \o impl.err ELSE "none")

Step ==
  LET it == Traces[tid][l]
      ms == Raise(mst, it)
      inp == Inputs(ms, it, 0)
      s1 == Drive(Flat, impl, inp @@ ("clk" :> VSl(0)))            \* inputs applied, clock low: what both sides see at the edge
      obs == ObsOf(s1, ms, it)
      viol == MonCheck(Layout, mon, obs)
      s3 == Drive(Flat, Drive(Flat, s1, "clk" :> VSl(1)), "clk" :> VSl(0))
      m2 == MonStep(Layout, mon, obs)
      \* registers that are routed to an output port (a register without port is observed through reads only)
      ports == [a \in {x \in DOMAIN Layout : PortOf[x] # ""} |-> LET v == s3.sig[PortOf[a]].v IN
                   IF Len(v) = 32 THEN v ELSE IF Layout[a] = "cnt" THEN v \o Zeros(16) ELSE Zeros(16) \o v]
      cports == [a \in CntRegs |-> [rd |-> s3.sig[Entry(a).rdport].v, wr |-> s3.sig[Entry(a).wrport].v]]
      ms2 == [aw |-> IF obs.awv = 1 /\ obs.awr = 1 THEN Idle.aw ELSE ms.aw,
              w |-> IF obs.wv = 1 /\ obs.wr = 1 THEN Idle.w ELSE ms.w,
              ar |-> IF obs.arv = 1 /\ obs.arr = 1 THEN Idle.ar ELSE ms.ar]
  IN /\ l <= Len(Traces[tid])
     /\ impl' = s3 /\ mon' = m2 /\ mst' = ms2 /\ l' = l + 1
     /\ err' = (IF s1.err # "" THEN "impl:" \o s1.err ELSE IF s3.err # "" THEN "impl:" \o s3.err
                ELSE IF s3.fired # {} THEN "assert-fired"
                ELSE IF viol # "" THEN viol
                ELSE IF ~PortsOk(Layout, m2, ports) THEN "register content is not what the completed / pending writes produce"
                ELSE IF ~CountersOk(Layout, m2, cports) THEN "notification counters at rest differ from the number of completed accesses"
                ELSE "none")
     /\ UNCHANGED tid

Next == err = "none" /\ Step
Spec == Init /\ [][Next]_vars

Report == err = "none" \/ PrintT(<<"VIOL", tid, l - 1, err>>)
\* one state per consumed intent plus the initial state: every trace was walked to its end unless it hit a violation
Walked == PrintT(<<"STAT", "steps", TLCGet("distinct")>>)
NoViolation == err = "none"
=============================================================================
