----------------------------- MODULE MC_Verdict -----------------------------
(***************************************************************************)
(* Acceptance verdicts of the source semantics (C05, C07, C08): for every  *)
(* recorded design description the reference semantics is evaluated for    *)
(* one clock on all-zero inputs and on all-one inputs; the error class it  *)
(* reports ("" = in the supported subset, "reject:..." = must be rejected  *)
(* at compile time) is printed and compared by the harness with what the   *)
(* real compiler did with the same description.                            *)
(***************************************************************************)
EXTENDS CoAccept, Json, IOUtils, TLCExt

Obs == JsonDeserialize(IOEnv.OBS_FILE)
N == Len(Obs.designs)
Dn(p) == Obs.designs[p]

InVal(d, b) == IF d.k = "bit" THEN CBit(b) ELSE CV(d.k, [i \in 1..d.w |-> b])
Inputs(p, b) == [n \in {Dn(p).inputs[i].n : i \in 1..Len(Dn(p).inputs)} |->
                   InVal(Dn(p).inputs[CHOOSE i \in 1..Len(Dn(p).inputs) : Dn(p).inputs[i].n = n], b)]

VerdictOf(p) ==
  LET E == ExpandAlways(Dn(p).adl)
      D == Summary(E)
      s0 == SpecInit(E, D)
      a == SpecStep(E, D, s0, Inputs(p, 0), Dn(p).clk)
      b == SpecStep(E, D, s0, Inputs(p, 1), Dn(p).clk)
      static == AcceptVerdict(E)
  IN IF static # "" THEN static
     ELSE IF a.err # "" /\ a.err # "undefined" THEN a.err ELSE IF b.err = "undefined" THEN "" ELSE b.err

ASSUME \A p \in 1..N : PrintT(<<"CASE", Dn(p).id, VerdictOf(p)>>)

VARIABLE x
Init == x = 0
Next == x' = x
Spec == Init /\ [][Next]_x
=============================================================================
