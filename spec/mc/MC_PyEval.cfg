SPECIFICATION Spec
