------------------------- MODULE MC_ContainersLive -------------------------
(***************************************************************************)
(* Design-level liveness of Containers.tla under fairness (what "without   *)
(* loss" means over time): a consumer that keeps popping whenever the Fifo *)
(* is not empty eventually receives every element that was pushed, and a   *)
(* full Fifo becomes writable again.  Producer and consumer are separate,  *)
(* independently enabled actions; only the consumer is fair.               *)
(***************************************************************************)
EXTENDS Containers, TLC
CONSTANTS N, Vals, MaxHist
VARIABLES q, pushed, popped
vars == <<q, pushed, popped>>
Init == q = << >> /\ pushed = << >> /\ popped = << >>
Push(v) == /\ Len(pushed) < MaxHist /\ ~FifoFull(q, N)
           /\ q' = FifoStep(q, [push |-> 1, v |-> v, pop |-> 0, reset |-> 0])
           /\ pushed' = Append(pushed, v) /\ UNCHANGED popped
Pop == /\ ~FifoEmpty(q)
       /\ q' = FifoStep(q, [push |-> 0, v |-> 0, pop |-> 1, reset |-> 0])
       /\ popped' = Append(popped, FifoPopped(q)) /\ UNCHANGED pushed
Both(v) == /\ Len(pushed) < MaxHist /\ ~FifoFull(q, N) /\ ~FifoEmpty(q)
           /\ q' = FifoStep(q, [push |-> 1, v |-> v, pop |-> 1, reset |-> 0])
           /\ pushed' = Append(pushed, v) /\ popped' = Append(popped, FifoPopped(q))
Next == Pop \/ \E v \in Vals : Push(v) \/ Both(v)
Spec == Init /\ [][Next]_vars /\ WF_vars(Pop \/ \E v \in Vals : Both(v))
\* every pushed element is eventually delivered, in order
Delivered == \A n \in 1..MaxHist : (Len(pushed) >= n) ~> (Len(popped) >= n /\ popped[n] = pushed[n])
\* a full Fifo does not stay full
Drains == FifoFull(q, N) ~> ~FifoFull(q, N)
=============================================================================
