----------------------------- MODULE MC_PyEval -----------------------------
(***************************************************************************)
(* C10: values of constant Python expressions (PyEval.tla) for recorded    *)
(* generated programs, in both modes.  program = [id, e]; the environment  *)
(* is given as a sequence of [n, e] definitions evaluated in order.        *)
(* Output: <<"CASE", id, json of the cpython-mode value, json of the       *)
(* cohdl-mode value>>; the harness compares the first with CPython itself  *)
(* (validation of the specification) and the second with the CoHDL tracer. *)
(***************************************************************************)
EXTENDS PyEval, Json, IOUtils, TLCExt

Obs == JsonDeserialize(IOEnv.OBS_FILE)
Progs == Obs.programs
N == Len(Progs)

RECURSIVE EnvOf(_, _, _)
EnvOf(defs, i, mode) == IF i = 0 THEN [x \in {} |-> 0]
                        ELSE LET env == EnvOf(defs, i - 1, mode) IN (defs[i].n :> Eval(defs[i].e, env, mode, 40)) @@ env

RECURSIVE Canon(_)
Canon(x) == CASE x.t \in {"int", "bool"} -> [t |-> x.t, v |-> x.v]
              [] x.t = "none" -> [t |-> "none", v |-> 0]
              [] x.t \in {"tuple", "list"} -> [t |-> x.t, v |-> [i \in 1..Len(x.v) |-> Canon(x.v[i])]]
              [] x.t = "dict" -> [t |-> "dict", v |-> [i \in 1..Len(x.ks) |-> <<Canon(x.ks[i]), Canon(x.vs[i])>>]]
              [] x.t = "err" -> [t |-> "err", v |-> x.v]
              [] OTHER -> [t |-> x.t, v |-> 0]

Val(p, mode) == Canon(Eval(Progs[p].e, EnvOf(Obs.env, Len(Obs.env), mode), mode, 40))

ASSUME \A p \in 1..N : PrintT(<<"CASE", Progs[p].id, ToJson(Val(p, "cpython")), ToJson(Val(p, "cohdl"))>>)
ASSUME PrintT(<<"STAT", "programs", N>>)

VARIABLE x
Init == x = 0
Next == x' = x
Spec == Init /\ [][Next]_x
=============================================================================
