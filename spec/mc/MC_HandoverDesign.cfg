SPECIFICATION Spec
CONSTANTS
  Vals = {0, 1, 2}
  MaxHist = 5
INVARIANT ExactlyOnceInOrder
CHECK_DEADLOCK FALSE
