---------------------------- MODULE MC_OpDispatch ----------------------------
EXTENDS OpDispatch, Json, TLC, TLCExt
M == {"absent", "ni", "val"}
Cases == {[kind |-> k, rel |-> r, fwd |-> f, rfl |-> g, ovr |-> o] :
            k \in {"arith", "cmp", "eq"}, r \in {"same", "unrelated", "sub"}, f \in M, g \in M, o \in {0, 1}}
\* "same": A and B are one class, so the reflected method is A's own; ovr is only meaningful for "sub"
Legal(c) == (c.rel # "sub" => c.ovr = 0) /\ (c.rel = "sub" /\ c.ovr = 0 => TRUE)
ASSUME \A c \in {x \in Cases : Legal(x)} : PrintT(<<"CASE", ToJson([c |-> c, res |-> Dispatch(c.kind, c.rel, c.fwd, c.rfl, c.ovr)])>>)
VARIABLE x
Init == x = 0
Next == x' = x
Spec == Init /\ [][Next]_x
=============================================================================
