SPECIFICATION Spec
INVARIANT NoViolation
CHECK_DEADLOCK FALSE
