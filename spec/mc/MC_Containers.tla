--------------------------- MODULE MC_Containers ---------------------------
(***************************************************************************)
(* Design-level check of Containers.tla alone (before any implementation   *)
(* is involved): with history variables, FIFO/LIFO order, occupancy and    *)
(* exact indications follow from the step functions.                       *)
(***************************************************************************)
EXTENDS Containers, TLC
CONSTANTS N, Vals, MaxHist
VARIABLES q, pushed, popped, s, spush, spop
vars == <<q, pushed, popped, s, spush, spop>>
Ops == {[push |-> p, v |-> v, pop |-> o, reset |-> r] : p \in {0, 1}, v \in Vals, o \in {0, 1}, r \in {0, 1}}
Init == q = << >> /\ pushed = << >> /\ popped = << >> /\ s = << >> /\ spush = 0 /\ spop = 0
Next ==
  /\ Len(pushed) < MaxHist
  /\ \E op \in Ops :
       /\ op.reset = 0 /\ FifoLegal(q, N, op)
       /\ q' = FifoStep(q, op)
       /\ pushed' = IF op.push = 1 THEN Append(pushed, op.v) ELSE pushed
       /\ popped' = IF op.pop = 1 THEN Append(popped, FifoPopped(q)) ELSE popped
       /\ UNCHANGED <<s, spush, spop>>
Spec == Init /\ [][Next]_vars
\* popped is a prefix of pushed, and the queue holds exactly the rest
FifoOrder == /\ Len(popped) <= Len(pushed)
             /\ \A i \in 1..Len(popped) : popped[i] = pushed[i]
             /\ q = SubSeq(pushed, Len(popped) + 1, Len(pushed))
FifoOccupancy == Len(q) <= FifoCap(N)
=============================================================================
