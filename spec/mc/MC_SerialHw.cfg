SPECIFICATION Spec
