SPECIFICATION Spec
