SPECIFICATION Spec
CONSTANTS
  N = 4
  Vals = {0, 1}
  MaxHist = 7
INVARIANT FifoOrder
INVARIANT FifoOccupancy
CHECK_DEADLOCK FALSE
