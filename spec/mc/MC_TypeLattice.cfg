SPECIFICATION Spec
CONSTANTS
  Universe <- MCUniverse
  MaxLen <- MCMaxLen
INVARIANT Canonical
INVARIANT PartialOrder
CONSTRAINT Emit
CHECK_DEADLOCK FALSE
