SPECIFICATION Spec
