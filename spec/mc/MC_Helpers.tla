----------------------------- MODULE MC_Helpers -----------------------------
(***************************************************************************)
(* Validation of recorded results of the std helpers (C18) against         *)
(* Helpers.tla.  case = [f, p (int parameters), a (vector arguments as     *)
(* [w, v] pairs), l (list of ints), r (result: [w, v] vector, or ints)]    *)
(***************************************************************************)
EXTENDS Helpers, Json, IOUtils, TLC, TLCExt

Obs == JsonDeserialize(IOEnv.OBS_FILE)
Cases == Obs.cases
N == Len(Cases)

Vec(x) == FromInt(x[2], x[1])          \* [w, v] -> bit sequence
IsVecRes(c, bits) == c.r[1] = Len(bits) /\ FromInt(c.r[2], c.r[1]) = bits
IsNumRes(c, n) == c.r[2] = n            \* numeric result: value only (the result width is checked to hold it)
Fits(c, n) == c.r[1] >= 1 /\ n < 2 ^ c.r[1]

Ok(c) ==
  LET f == c.f
      A(i) == Vec(c.a[i])
      P(i) == c.p[i]
  IN
  CASE f = "count_set_bits" -> IsNumRes(c, CountSetBits(A(1))) /\ Fits(c, Len(A(1)))
    [] f = "count_clear_bits" -> IsNumRes(c, CountClearBits(A(1))) /\ Fits(c, Len(A(1)))
    [] f = "count_trailing_zeros" -> IsNumRes(c, TrailingZeros(A(1))) /\ Fits(c, Len(A(1)))
    [] f = "count_trailing_ones" -> IsNumRes(c, TrailingOnes(A(1))) /\ Fits(c, Len(A(1)))
    [] f = "count_leading_zeros" -> IsNumRes(c, LeadingZeros(A(1))) /\ Fits(c, Len(A(1)))
    [] f = "count_leading_ones" -> IsNumRes(c, LeadingOnes(A(1))) /\ Fits(c, Len(A(1)))
    [] f = "one_hot" -> IsVecRes(c, OneHot(P(1), P(2)))
    [] f = "is_one_hot" -> IsNumRes(c, IF IsOneHot(A(1)) THEN 1 ELSE 0)
    [] f = "reverse_bits" -> IsVecRes(c, ReverseBits(A(1)))
    [] f = "parity" -> IsNumRes(c, Parity(A(1)))
    [] f = "rol" -> IsVecRes(c, Rol(A(1), P(1)))
    [] f = "ror" -> IsVecRes(c, Ror(A(1), P(1)))
    [] f = "lshift_fill" -> IsVecRes(c, LshiftFill(A(1), A(2)))
    [] f = "rshift_fill" -> IsVecRes(c, RshiftFill(A(1), A(2)))
    [] f = "repeat" -> IsVecRes(c, Repeat(A(1), P(1)))
    [] f = "stretch" -> IsVecRes(c, Stretch(A(1), P(1)))
    [] f = "leftpad" -> IsVecRes(c, LeftPad(A(1), P(1), P(2)))
    [] f = "rightpad" -> IsVecRes(c, RightPad(A(1), P(1), P(2)))
    [] f = "pad" -> IsVecRes(c, Pad(A(1), P(1), P(2), P(3)))
    [] f = "apply_mask" -> IsVecRes(c, ApplyMask(A(1), A(2), A(3)))
    [] f = "mask_apply" -> IsVecRes(c, ApplyMask(A(1), A(2), A(3)))
    [] f = "concat" -> IsVecRes(c, ConcatAll([i \in 1..Len(c.a) |-> A(i)], 1))
    [] f = "batched" -> LET b == Batched(A(1), P(1)) IN
                        Len(c.rl) = Len(b) /\ \A j \in 1..Len(b) : c.rl[j][1] = Len(b[j]) /\ FromInt(c.rl[j][2], c.rl[j][1]) = b[j]
    [] f = "select_batch" -> IsVecRes(c, SelectBatch(A(1), A(2), P(1)))
    [] f = "minimum" -> IsNumRes(c, Minimum(c.l))
    [] f = "maximum" -> IsNumRes(c, Maximum(c.l))
    [] f = "min_element" -> IsNumRes(c, Minimum(c.l))
    [] f = "max_element" -> IsNumRes(c, Maximum(c.l))
    [] f = "min_index" -> IsNumRes(c, MinIndex(c.l) - 1)
    [] f = "max_index" -> IsNumRes(c, MaxIndex(c.l) - 1)
    [] f = "count" -> IsNumRes(c, Count(c.l, P(1)))
    [] f = "clamp" -> IsNumRes(c, Clamp(P(1), P(2), P(3)))
    [] f = "count_elements_while" -> IsNumRes(c, CountWhile(c.l, P(1), 1))
    [] f = "count_elements_until" -> IsNumRes(c, CountUntil(c.l, P(1), 1))
    [] f = "fold_add" -> IsNumRes(c, FoldL(LAMBDA x, y : (x + y) % (2 ^ P(1)), c.l, 0, 1))
    [] f = "fold_xor" -> IsVecRes(c, FoldL(LAMBDA x, y : XorV(x, y), [i \in 1..Len(c.a) |-> A(i)], Zeros(c.a[1][1]), 1))
    [] f = "fold_and" -> IsVecRes(c, FoldL(LAMBDA x, y : AndV(x, y), [i \in 1..Len(c.a) |-> A(i)], Ones(c.a[1][1]), 1))
    [] f = "crc" -> IsVecRes(c, CrcFeed(A(1), A(2), c.l, 1))
    [] OTHER -> FALSE

ASSUME \A i \in 1..N : Ok(Cases[i]) \/ PrintT(<<"VIOL", i, Cases[i].f>>)
ASSUME PrintT(<<"STAT", "cases", N>>)

VARIABLE x
Init == x = 0
Next == x' = x
Spec == Init /\ [][Next]_x
=============================================================================
