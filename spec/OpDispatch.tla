------------------------------ MODULE OpDispatch ------------------------------
(***************************************************************************)
(* C10: "operator overloading with reflected fallbacks ... evaluates       *)
(* during compilation to exactly the values CPython produces".             *)
(* Python's binary-operator dispatch (data model 3.3.8, rich comparisons   *)
(* 3.3.1) for  a op b  with a : A, b : B.                                   *)
(*  rel  "same" (B is A) | "unrelated" | "sub" (B is a proper subclass of A) *)
(*  each method is "absent", "ni" (returns NotImplemented) or "val"         *)
(*  (returns a value naming the method that produced it);                   *)
(*  fwd / rfl : A's forward method and B's reflected method;                *)
(*  ovr = 1 : the subclass B provides (overrides) the reflected method      *)
(*  kind "arith" (+ - * ...) or "cmp" (< <= > >=) or "eq" (== !=)           *)
(* Result: "fwd", "rfl", "TypeError", or "identity" (default ==/!=).        *)
(***************************************************************************)
EXTENDS Naturals

Dispatch(kind, rel, fwd, rfl, ovr) ==
  LET \* the reflected method is tried first when the right operand's type is a proper subclass: for arithmetic only if
      \* the subclass provides (overrides) the reflected method, for rich comparisons always (the comparison slot is inherited)
      first == rel = "sub" /\ (ovr = 1 \/ kind # "arith") /\ rfl # "absent"
      \* for arithmetic the reflected method is only tried when the operand types differ; for comparisons always
      tryRfl == rfl # "absent" /\ (kind # "arith" \/ rel # "same")
      fallback == IF kind = "eq" THEN "identity" ELSE "TypeError"
  IN IF first /\ rfl = "val" THEN "rfl"
     ELSE IF fwd = "val" THEN "fwd"
     ELSE IF tryRfl /\ ~first /\ rfl = "val" THEN "rfl"
     ELSE fallback
=============================================================================
