------------------------------- MODULE PyEval -------------------------------
(***************************************************************************)
(* C10: "Code in the supported Python subset that involves no hardware     *)
(*  objects - ... list/dict/tuple construction, starred unpacking,         *)
(*  subscripts and comprehensions; constant if/for/if-expressions, chained *)
(*  comparisons and isinstance/type checks - evaluates during compilation  *)
(*  to exactly the values CPython produces (and/or/not yielding the truth  *)
(*  value), or is rejected with an error."                                 *)
(*                                                                         *)
(* A value-level semantics of constant Python expressions.                 *)
(* Values: [t |-> "int", v], [t |-> "bool", v (0/1)], [t |-> "none"],      *)
(*   [t |-> "tuple" | "list", v |-> sequence of values],                   *)
(*   [t |-> "dict", ks |-> keys, vs |-> values (insertion order)],         *)
(*   [t |-> "fn", p |-> parameter names, b |-> body, env |-> closure],     *)
(*   [t |-> "err", v |-> exception class]                                  *)
(* Mode "cpython": and / or yield the deciding operand (the language).     *)
(* Mode "cohdl"  : and / or yield the truth value (C10's stated deviation).*)
(***************************************************************************)
EXTENDS Integers, Sequences, FiniteSets, TLC

PInt(n) == [t |-> "int", v |-> n]
PBool(b) == [t |-> "bool", v |-> IF b THEN 1 ELSE 0]
PNone == [t |-> "none"]
PSeq(t, s) == [t |-> t, v |-> s]
PErr(c) == [t |-> "err", v |-> c]
IsErr(x) == x.t = "err"
IsNum(x) == x.t \in {"int", "bool"}          \* bool is a subclass of int
IsSeq(x) == x.t \in {"tuple", "list"}

Truth(x) == CASE x.t \in {"int", "bool"} -> x.v # 0
              [] x.t = "none" -> FALSE
              [] x.t \in {"tuple", "list"} -> Len(x.v) > 0
              [] x.t = "dict" -> Len(x.ks) > 0
              [] OTHER -> TRUE

\* structural equality with int/bool identified (True == 1), list # tuple
RECURSIVE PyEq(_, _)
PyEq(a, b) ==
  IF IsNum(a) /\ IsNum(b) THEN a.v = b.v
  ELSE IF a.t # b.t THEN FALSE
  ELSE IF a.t = "none" THEN TRUE
  ELSE IF IsSeq(a) THEN Len(a.v) = Len(b.v) /\ \A i \in 1..Len(a.v) : PyEq(a.v[i], b.v[i])
  ELSE IF a.t = "dict" THEN Len(a.ks) = Len(b.ks) /\ \A i \in 1..Len(a.ks) : \E j \in 1..Len(b.ks) : PyEq(a.ks[i], b.ks[j]) /\ PyEq(a.vs[i], b.vs[j])
  ELSE FALSE

FloorDiv(a, b) == IF b > 0 THEN (IF a >= 0 THEN a \div b ELSE -((-a + b - 1) \div b))
                  ELSE (IF a <= 0 THEN (-a) \div (-b) ELSE -((a + (-b) - 1) \div (-b)))
FloorMod(a, b) == a - b * FloorDiv(a, b)

RECURSIVE Repeat(_, _)
Repeat(s, n) == IF n <= 0 THEN << >> ELSE s \o Repeat(s, n - 1)

Arith(op, a, b) ==
  IF IsNum(a) /\ IsNum(b) THEN
       CASE op = "add" -> PInt(a.v + b.v) [] op = "sub" -> PInt(a.v - b.v) [] op = "mul" -> PInt(a.v * b.v)
         [] op = "floordiv" -> IF b.v = 0 THEN PErr("ZeroDivisionError") ELSE PInt(FloorDiv(a.v, b.v))
         [] op = "mod" -> IF b.v = 0 THEN PErr("ZeroDivisionError") ELSE PInt(FloorMod(a.v, b.v))
  ELSE IF op = "add" /\ IsSeq(a) /\ a.t = b.t THEN PSeq(a.t, a.v \o b.v)
  ELSE IF op = "mul" /\ IsSeq(a) /\ IsNum(b) THEN PSeq(a.t, Repeat(a.v, b.v))
  ELSE IF op = "mul" /\ IsNum(a) /\ IsSeq(b) THEN PSeq(b.t, Repeat(b.v, a.v))
  ELSE PErr("TypeError")

RECURSIVE SeqLess(_, _, _)
\* lexicographic a < b (strict = TRUE) or a <= b over sequences of numbers
SeqLess(a, b, strict) ==
  IF a = << >> THEN (IF b = << >> THEN ~strict ELSE TRUE)
  ELSE IF b = << >> THEN FALSE
  ELSE IF Head(a).v # Head(b).v THEN Head(a).v < Head(b).v
  ELSE SeqLess(Tail(a), Tail(b), strict)

Compare(op, a, b) ==
  IF op = "eq" THEN PBool(PyEq(a, b))
  ELSE IF op = "ne" THEN PBool(~PyEq(a, b))
  ELSE IF op = "is" THEN (IF a.t = "none" \/ b.t = "none" THEN PBool(a.t = b.t) ELSE PErr("unsupported:is"))
  ELSE IF op = "isnot" THEN (IF a.t = "none" \/ b.t = "none" THEN PBool(a.t # b.t) ELSE PErr("unsupported:is"))
  ELSE IF op = "in" THEN (IF IsSeq(b) THEN PBool(\E i \in 1..Len(b.v) : PyEq(a, b.v[i]))
                          ELSE IF b.t = "dict" THEN PBool(\E i \in 1..Len(b.ks) : PyEq(a, b.ks[i])) ELSE PErr("TypeError"))
  ELSE IF IsNum(a) /\ IsNum(b) THEN
       PBool(CASE op = "lt" -> a.v < b.v [] op = "le" -> a.v <= b.v [] op = "gt" -> a.v > b.v [] op = "ge" -> a.v >= b.v)
  ELSE IF IsSeq(a) /\ a.t = b.t /\ (\A i \in 1..Len(a.v) : IsNum(a.v[i])) /\ (\A i \in 1..Len(b.v) : IsNum(b.v[i])) THEN
       PBool(CASE op = "lt" -> SeqLess(a.v, b.v, TRUE) [] op = "le" -> SeqLess(a.v, b.v, FALSE)
               [] op = "gt" -> SeqLess(b.v, a.v, TRUE) [] op = "ge" -> SeqLess(b.v, a.v, FALSE))
  ELSE PErr("TypeError")

Subscript(a, i) ==
  IF IsSeq(a) THEN
       (IF ~IsNum(i) THEN PErr("TypeError")
        ELSE LET k == IF i.v < 0 THEN Len(a.v) + i.v ELSE i.v IN
             IF k < 0 \/ k >= Len(a.v) THEN PErr("IndexError") ELSE a.v[k + 1])
  ELSE IF a.t = "dict" THEN
       (IF \E j \in 1..Len(a.ks) : PyEq(a.ks[j], i) THEN a.vs[CHOOSE j \in 1..Len(a.ks) : PyEq(a.ks[j], i)] ELSE PErr("KeyError"))
  ELSE PErr("TypeError")

Slice(a, lo, hi) ==     \* a[lo:hi] with non-negative constant bounds (clamped)
  IF ~IsSeq(a) THEN PErr("TypeError")
  ELSE LET l == IF lo > Len(a.v) THEN Len(a.v) ELSE lo
           h == IF hi > Len(a.v) THEN Len(a.v) ELSE hi
       IN PSeq(a.t, IF h <= l THEN << >> ELSE SubSeq(a.v, l + 1, h))

\* isinstance(x, cls) for the builtin classes (bool is an int)
IsInstance(x, cls) ==
  CASE cls = "int" -> x.t \in {"int", "bool"}
    [] cls = "bool" -> x.t = "bool"
    [] cls = "tuple" -> x.t = "tuple"
    [] cls = "list" -> x.t = "list"
    [] cls = "dict" -> x.t = "dict"
    [] cls = "NoneType" -> x.t = "none"
    [] OTHER -> FALSE

RECURSIVE SumV(_, _), MinV(_, _), MaxV(_, _)
SumV(s, i) == IF i > Len(s) THEN 0 ELSE s[i].v + SumV(s, i + 1)
MinV(s, i) == IF i = Len(s) THEN s[i].v ELSE LET m == MinV(s, i + 1) IN IF s[i].v <= m THEN s[i].v ELSE m
MaxV(s, i) == IF i = Len(s) THEN s[i].v ELSE LET m == MaxV(s, i + 1) IN IF s[i].v >= m THEN s[i].v ELSE m

Builtin(f, as) ==
  LET a == as[1] IN
  CASE f = "len" -> (IF IsSeq(a) THEN PInt(Len(a.v)) ELSE IF a.t = "dict" THEN PInt(Len(a.ks)) ELSE PErr("TypeError"))
    [] f = "abs" -> (IF IsNum(a) THEN PInt(IF a.v < 0 THEN -a.v ELSE a.v) ELSE PErr("TypeError"))
    [] f = "bool" -> PBool(Truth(a))
    [] f = "int" -> (IF IsNum(a) THEN PInt(a.v) ELSE PErr("TypeError"))
    [] f = "tuple" -> (IF IsSeq(a) THEN PSeq("tuple", a.v) ELSE IF a.t = "dict" THEN PSeq("tuple", a.ks) ELSE PErr("TypeError"))
    [] f = "list" -> (IF IsSeq(a) THEN PSeq("list", a.v) ELSE IF a.t = "dict" THEN PSeq("list", a.ks) ELSE PErr("TypeError"))
    [] f \in {"sum", "min", "max"} ->
         (IF ~IsSeq(a) \/ \E i \in 1..Len(a.v) : ~IsNum(a.v[i]) THEN PErr("TypeError")
          ELSE IF f = "sum" THEN PInt(SumV(a.v, 1))
          ELSE IF Len(a.v) = 0 THEN PErr("ValueError")
          \* min / max return the element itself (a bool stays a bool); only ints are generated in these positions
          ELSE PInt(IF f = "min" THEN MinV(a.v, 1) ELSE MaxV(a.v, 1)))
    [] f = "isinstance" -> (IF as[2].t = "cls" THEN PBool(IsInstance(a, as[2].v))
                            ELSE IF as[2].t = "tuple" THEN PBool(\E i \in 1..Len(as[2].v) : IsInstance(a, as[2].v[i].v))
                            ELSE PErr("TypeError"))
    [] OTHER -> PErr("unsupported:" \o f)

\* the indices of a set in increasing order
SortSeqIdx(S) == LET RECURSIVE go(_) go(T) == IF T = {} THEN << >> ELSE LET m == CHOOSE x \in T : \A y \in T : x <= y IN <<m>> \o go(T \ {m}) IN go(S)

RECURSIVE Eval(_, _, _, _), EvalSeq(_, _, _, _, _), Comp(_, _, _, _, _, _), Chain(_, _, _, _)
\* env : [name -> value];  fuel bounds the recursion through closures
Eval(e, env, mode, fuel) ==
  IF fuel = 0 THEN PErr("spec:fuel")
  ELSE
  CASE e.k = "int" -> PInt(e.v)
    [] e.k = "bool" -> PBool(e.v = 1)
    [] e.k = "none" -> PNone
    [] e.k = "cls" -> [t |-> "cls", v |-> e.n]
    [] e.k = "name" -> IF e.n \in DOMAIN env THEN env[e.n] ELSE PErr("NameError")
    [] e.k \in {"tuple", "list"} ->      \* elements may be starred: *x splices an iterable
         LET r == EvalSeq(e.es, 1, env, mode, fuel) IN IF r.t = "err" THEN r ELSE PSeq(e.k, r.v)
    [] e.k = "dict" ->
         LET ks == EvalSeq(e.ks, 1, env, mode, fuel) vs == EvalSeq(e.vs, 1, env, mode, fuel) IN
         IF ks.t = "err" THEN ks ELSE IF vs.t = "err" THEN vs
         \* later duplicates of a key replace the value, the position of the first occurrence is kept
         ELSE LET first == {i \in 1..Len(ks.v) : \A j \in 1..(i - 1) : ~PyEq(ks.v[j], ks.v[i])}
                  order == SortSeqIdx(first)
                  last(i) == CHOOSE j \in 1..Len(ks.v) : PyEq(ks.v[j], ks.v[i]) /\ \A q \in (j + 1)..Len(ks.v) : ~PyEq(ks.v[q], ks.v[i])
              IN [t |-> "dict", ks |-> [q \in 1..Len(order) |-> ks.v[order[q]]], vs |-> [q \in 1..Len(order) |-> vs.v[last(order[q])]]]
    [] e.k = "sub" -> LET a == Eval(e.e, env, mode, fuel - 1) i == Eval(e.i, env, mode, fuel - 1) IN
                      IF IsErr(a) THEN a ELSE IF IsErr(i) THEN i ELSE Subscript(a, i)
    [] e.k = "slice" -> LET a == Eval(e.e, env, mode, fuel - 1) IN IF IsErr(a) THEN a ELSE Slice(a, e.lo, e.hi)
    [] e.k = "bin" -> LET a == Eval(e.l, env, mode, fuel - 1) b == Eval(e.r, env, mode, fuel - 1) IN
                      IF IsErr(a) THEN a ELSE IF IsErr(b) THEN b ELSE Arith(e.op, a, b)
    [] e.k = "neg" -> LET a == Eval(e.e, env, mode, fuel - 1) IN IF IsErr(a) THEN a ELSE IF IsNum(a) THEN PInt(-a.v) ELSE PErr("TypeError")
    [] e.k = "not" -> LET a == Eval(e.e, env, mode, fuel - 1) IN IF IsErr(a) THEN a ELSE PBool(~Truth(a))
    [] e.k \in {"and", "or"} ->
         \* left to right, stops at the deciding operand (the others are not evaluated)
         LET a == Eval(e.l, env, mode, fuel - 1) IN
         IF IsErr(a) THEN a
         ELSE IF (e.k = "and") = Truth(a) THEN
              (LET b == Eval(e.r, env, mode, fuel - 1) IN IF IsErr(b) \/ mode = "cpython" THEN b ELSE PBool(Truth(b)))
         ELSE IF mode = "cpython" THEN a ELSE PBool(Truth(a))
    [] e.k = "cmp" -> Chain(e, 1, env, [mode |-> mode, fuel |-> fuel - 1])
    [] e.k = "ifexp" -> LET c == Eval(e.c, env, mode, fuel - 1) IN
                        IF IsErr(c) THEN c ELSE IF Truth(c) THEN Eval(e.a, env, mode, fuel - 1) ELSE Eval(e.b, env, mode, fuel - 1)
    [] e.k = "comp" ->     \* [elt for var in iter if cond] (list) / tuple(... generator ...)
         LET it == Eval(e.it, env, mode, fuel - 1) IN
         IF IsErr(it) THEN it
         ELSE IF ~IsSeq(it) /\ it.t # "dict" THEN PErr("TypeError")
         ELSE LET items == IF it.t = "dict" THEN it.ks ELSE it.v
                  r == Comp(e, items, 1, env, mode, fuel - 1)
              IN IF r.t = "err" THEN r ELSE PSeq(e.to, r.v)
    [] e.k = "call" ->
         LET as == EvalSeq(e.args, 1, env, mode, fuel) IN
         IF as.t = "err" THEN as ELSE Builtin(e.f, as.v)
    [] e.k = "lambda" -> [t |-> "fn", p |-> e.p, b |-> e.b, env |-> env]
    [] e.k = "apply" ->     \* call of a closure: positional arguments only, the closure's environment is the defining one
         LET f == Eval(e.f, env, mode, fuel - 1)
             as == EvalSeq(e.args, 1, env, mode, fuel)
         IN IF IsErr(f) THEN f ELSE IF as.t = "err" THEN as
            ELSE IF f.t # "fn" \/ Len(f.p) # Len(as.v) THEN PErr("TypeError")
            ELSE Eval(f.b, [n \in {f.p[i] : i \in 1..Len(f.p)} |-> as.v[CHOOSE i \in 1..Len(f.p) : f.p[i] = n]] @@ f.env, mode, fuel - 1)
    [] OTHER -> PErr("unsupported:" \o e.k)

\* elements of a display, splicing starred ones
EvalSeq(es, i, env, mode, fuel) ==
  IF i > Len(es) THEN [t |-> "ok", v |-> << >>]
  ELSE LET e == es[i]
           x == Eval(IF e.k = "star" THEN e.e ELSE e, env, mode, fuel - 1)
           rest == EvalSeq(es, i + 1, env, mode, fuel)
       IN IF IsErr(x) THEN x ELSE IF rest.t = "err" THEN rest
          ELSE IF e.k = "star" THEN (IF IsSeq(x) THEN [t |-> "ok", v |-> x.v \o rest.v]
                                     ELSE IF x.t = "dict" THEN [t |-> "ok", v |-> x.ks \o rest.v] ELSE PErr("TypeError"))
          ELSE [t |-> "ok", v |-> <<x>> \o rest.v]

Comp(e, items, i, env, mode, fuel) ==
  IF i > Len(items) THEN [t |-> "ok", v |-> << >>]
  ELSE LET env2 == (e.var :> items[i]) @@ env
           c == IF e.hascond = 1 THEN Eval(e.cond, env2, mode, fuel) ELSE PBool(TRUE)
       IN IF IsErr(c) THEN c
          ELSE LET rest == Comp(e, items, i + 1, env, mode, fuel) IN
               IF rest.t = "err" THEN rest
               ELSE IF ~Truth(c) THEN rest
               ELSE LET x == Eval(e.elt, env2, mode, fuel) IN
                    IF IsErr(x) THEN x ELSE [t |-> "ok", v |-> <<x>> \o rest.v]

\* a < b <= c: pairwise, left to right, each operand evaluated once, stops at the first false link
Chain(e, i, env, cfg) ==
  LET a == Eval(e.es[i], env, cfg.mode, cfg.fuel)
      b == Eval(e.es[i + 1], env, cfg.mode, cfg.fuel)
  IN IF IsErr(a) THEN a ELSE IF IsErr(b) THEN b
     ELSE LET c == Compare(e.ops[i], a, b) IN
          IF IsErr(c) THEN c
          ELSE IF c.v = 0 \/ i = Len(e.ops) THEN c
          ELSE Chain(e, i + 1, env, cfg)
=============================================================================
