------------------------------ MODULE Durations ------------------------------
(***************************************************************************)
(* C16: "... and Duration arguments are converted with the context's clock *)
(*  period."                                                               *)
(* A duration and a clock period are exact numbers of picoseconds (all     *)
(* values the enumeration uses are integral multiples of 1 ps below 2^31). *)
(* The number of clock ticks of a duration is the quotient when the period *)
(* divides the duration; a duration that is not a whole number of periods  *)
(* has no tick count (std/_context.py count_periods: "subperiod does not   *)
(* divide period", tolerance 1e-9 relative; inside the tolerance either    *)
(* answer is accepted, see ClearlyInexact).                                *)
(***************************************************************************)
EXTENDS Naturals, Integers

Divides(p, d) == d % p = 0
\* -1 = no tick count
Ticks(d, p) == IF p > 0 /\ Divides(p, d) THEN d \div p ELSE -1

\* clearly outside the tolerance: |nearest integer - d/p| / (d/p) > 1e-9  <=>  min(r, p - r) * 10^9 > d  (r = d mod p);
\* with d < 2^31 that holds whenever min(r, p - r) >= 3, and for every non-zero remainder when d < 10^9
ClearlyInexact(d, p) == LET r == d % p  m == IF r <= p - r THEN r ELSE p - r IN r # 0 /\ (m >= 3 \/ d < 1000000000)

\* what a unit constructor denotes in picoseconds / what a frequency's period is
UnitPs == [ps |-> 1, ns |-> 1000, us |-> 1000000, ms |-> 1000000000]
\* period of a frequency given in kHz that divides 10^9 ps*kHz exactly
PeriodOfKHz(f) == 1000000000 \div f
=============================================================================
