------------------------------- MODULE Serial -------------------------------
(***************************************************************************)
(* C17: serialisation round-trips with the documented bit layout.          *)
(*  "from_bits[T](to_bits(x)) == x, to_bits(from_bits[T](b)) == b for      *)
(*   every bit pattern b, and to_bits(x) has exactly count_bits(T) bits.   *)
(*   The layout is the documented one (first record field and array        *)
(*   element 0 occupy the least significant bits)."                        *)
(* A type expression T:  [k |-> "leaf", w]  (Bit, bool, BitVector/Signed/   *)
(* Unsigned[w], enums over w bits, fixed-point of width w),                 *)
(* [k |-> "arr", el, n], [k |-> "rec", fields] (inherited fields first).    *)
(* A value is represented by the sequence of its leaves' bit patterns in   *)
(* declaration / element order.                                            *)
(***************************************************************************)
EXTENDS BitVec

RECURSIVE WidthOf(_), SumWidths(_, _)
WidthOf(T) == CASE T.k = "leaf" -> T.w
                [] T.k = "arr" -> T.n * WidthOf(T.el)
                [] T.k = "rec" -> SumWidths(T.fields, 1)
SumWidths(fs, i) == IF i > Len(fs) THEN 0 ELSE WidthOf(fs[i]) + SumWidths(fs, i + 1)

\* leaves (as bit sequences) of the value of type T stored in `bits` (index 1 = bit 0)
RECURSIVE Leaves(_, _), FieldLeaves(_, _, _, _)
Leaves(T, bits) ==
  CASE T.k = "leaf" -> <<bits>>
    [] T.k = "arr" -> LET w == WidthOf(T.el) IN
                      FieldLeaves([i \in 1..T.n |-> T.el], bits, 1, 0)      \* element 0 in the least significant bits
    [] T.k = "rec" -> FieldLeaves(T.fields, bits, 1, 0)                      \* first declared field least significant
FieldLeaves(fs, bits, i, off) ==
  IF i > Len(fs) THEN << >>
  ELSE LET w == WidthOf(fs[i]) IN
       Leaves(fs[i], [j \in 1..w |-> bits[off + j]]) \o FieldLeaves(fs, bits, i + 1, off + w)

RECURSIVE Flatten(_, _)
\* the inverse: concatenate leaves, first leaf least significant
Flatten(ls, i) == IF i > Len(ls) THEN << >> ELSE ls[i] \o Flatten(ls, i + 1)
=============================================================================
