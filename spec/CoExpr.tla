------------------------------- MODULE CoExpr -------------------------------
(***************************************************************************)
(* What a CoHDL source expression means (property C02, C05, C09).          *)
(*                                                                         *)
(* Written from the property statements and the .pyi documentation, not    *)
(* from the compiler: "Arithmetic wraps modulo the result width (+,- : max *)
(* width; * : sum of widths; truncdiv : dividend width; mod/rem : divisor  *)
(* width), unsigned operands are zero-extended and signed operands         *)
(* sign-extended before mixed-width operations, >> is logical for Unsigned *)
(* and arithmetic for Signed, and the left operand of @ forms the most     *)
(* significant bits."                                                      *)
(*                                                                         *)
(* Values: [t, v] with t in                                                *)
(*   "bit" (v in 0..2)  "bv" "u" "s" (bit sequences, index 1 = bit 0)      *)
(*   "bool" (0/1)  "int"  "enum" (position)  "arr" (sequence of values)    *)
(*   "err" (v = reason; "reject:..." = the expression is outside the       *)
(*          supported subset and the generator must not have emitted it)   *)
(* Expressions: the ADL of harness/adl.py (JSON).                          *)
(***************************************************************************)
EXTENDS Helpers

CV(t, v) == [t |-> t, v |-> v]
CBit(b)  == CV("bit", b)
CBool(b) == CV("bool", IF b THEN 1 ELSE 0)
CInt(n)  == CV("int", n)
CErr(s)  == CV("err", s)
CIsErr(x) == x.t = "err"
CIsVec(x) == x.t \in {"bv", "u", "s"}
CIsNum(x) == x.t \in {"u", "s"}
CWidth(x) == Len(x.v)

\* mathematical value of a numeric vector
CNum(x) == IF x.t = "s" THEN ToInt(x.v) ELSE ToNat(x.v)
\* extend a numeric vector to w bits according to its kind
CExt(x, w) == IF x.t = "s" THEN SignExt(x.v, w) ELSE ZeroExt(x.v, w)
CWrap(t, n, w) == CV(t, FromInt(n, w))
CKnown(x) == IF CIsVec(x) THEN Known(x.v) ELSE IF x.t = "bit" THEN x.v # 2 ELSE TRUE

\* default (zero) value of a type  ty = [k, w]  (arrays: [k = "arr", w = length, el = element type]; enumerations: w literals)
RECURSIVE CZero(_), CLit(_, _), CUnknown(_)
CZero(ty) == CASE ty.k = "bit" -> CBit(0)
               [] ty.k \in {"bv", "u", "s"} -> CV(ty.k, Zeros(ty.w))
               [] ty.k = "bool" -> CV("bool", 0)
               [] ty.k = "int" -> CInt(0)
               [] ty.k = "enum" -> CV("enum", 0)
               [] ty.k = "arr" -> CV("arr", [i \in 1..ty.w |-> CZero(ty.el)])

\* literal of type ty from an integer pattern (two's complement for negative values); an enumeration literal is its
\* position; the only array literal is Null (n = 0)
CLit(ty, n) == CASE ty.k = "bit" -> CBit(n)
                [] ty.k \in {"bv", "u", "s"} -> CV(ty.k, FromInt(n, ty.w))
                [] ty.k = "bool" -> CV("bool", n)
                [] ty.k = "int" -> CInt(n)
                [] ty.k = "enum" -> CV("enum", n)
                [] ty.k = "arr" -> CZero(ty)

\* an object without default: "the value is unspecified until first assigned"
CUnknown(ty) == CASE ty.k = "bit" -> CBit(2)
                  [] ty.k = "arr" -> CV("arr", [i \in 1..ty.w |-> CUnknown(ty.el)])
                  [] ty.k = "enum" -> CV("enum", 0)      \* (VHDL: the leftmost literal; generated designs give enums a default)
                  [] OTHER -> CV(ty.k, AllU(ty.w))

(* ---------------- arithmetic ---------------- *)
\* "+,- : max width; * : sum of widths; truncdiv : dividend width; mod/rem : divisor width"
\* an int operand adopts the width of the vector operand (documented in _unsigned.pyi / _signed.pyi)
CArithWidth(op, a, b) ==
  LET wa == IF a.t = "int" THEN CWidth(b) ELSE CWidth(a)
      wb == IF b.t = "int" THEN CWidth(a) ELSE CWidth(b)
  IN CASE op \in {"add", "sub"} -> Max(wa, wb)
       [] op = "mul" -> wa + wb
       [] op = "truncdiv" -> wa
       [] op \in {"mod", "rem"} -> wb

CArithInt(op, x, y) ==
  CASE op = "add" -> x + y
    [] op = "sub" -> x - y
    [] op = "mul" -> x * y
    [] op = "truncdiv" -> TruncDiv(x, y)
    [] op = "rem" -> TruncRem(x, y)
    [] op = "mod" -> FloorMod(x, y)

CArith(op, a, b) ==
  IF a.t = "int" /\ b.t = "int" THEN
       (IF op \in {"truncdiv", "mod", "rem"} /\ b.v = 0 THEN CErr("undefined") ELSE CInt(CArithInt(op, a.v, b.v)))
  ELSE
  LET kind == IF a.t = "int" THEN b.t ELSE a.t IN
  IF ~(kind \in {"u", "s"}) \/ ~(a.t \in {kind, "int"}) \/ ~(b.t \in {kind, "int"})
    THEN CErr("reject:arithmetic on " \o a.t \o " and " \o b.t)
  ELSE
  LET w == CArithWidth(op, a, b)
      x == IF a.t = "int" THEN a.v ELSE CNum(a)
      y == IF b.t = "int" THEN b.v ELSE CNum(b)
  IN IF ~CKnown(a) \/ ~CKnown(b) THEN CV(kind, AllU(w))
     ELSE IF op \in {"truncdiv", "mod", "rem"} /\ y = 0 THEN CErr("undefined")
     ELSE CWrap(kind, CArithInt(op, x, y), w)

(* ---------------- bitwise ---------------- *)
CBitOp(op, x, y) == CASE op = "and" -> And3(x, y) [] op = "or" -> Or3(x, y) [] op = "xor" -> Xor3(x, y)

CBitwise(op, a, b) ==
  IF a.t = "bit" /\ b.t = "bit" THEN CBit(CBitOp(op, a.v, b.v))
  ELSE IF a.t = "bool" /\ b.t = "bool" THEN CV("bool", CBitOp(op, a.v, b.v))
  ELSE IF CIsVec(a) /\ CIsVec(b) /\ CWidth(a) = CWidth(b) THEN
       \* the result keeps the operands' common kind; mixed kinds give a plain BitVector
       CV(IF a.t = b.t THEN a.t ELSE "bv", [i \in 1..CWidth(a) |-> CBitOp(op, a.v[i], b.v[i])])
  ELSE CErr("reject:bitwise operator on " \o a.t \o " and " \o b.t)

(* ---------------- shifts ---------------- *)
\* ">> is logical for Unsigned and arithmetic for Signed"; << drops bits shifted out
CShift(op, a, b) ==
  LET n == IF b.t = "int" THEN b.v ELSE IF b.t = "u" /\ Known(b.v) THEN ToNat(b.v) ELSE -1 IN
  IF ~CIsNum(a) \/ ~(b.t \in {"int", "u"}) THEN CErr("reject:shift of " \o a.t \o " by " \o b.t)
  ELSE IF b.t = "u" /\ ~Known(b.v) THEN CV(a.t, AllU(CWidth(a)))
  ELSE IF n < 0 THEN CErr("reject:negative shift")
  ELSE IF op = "lshift" THEN CV(a.t, Shl(a.v, n))
  ELSE IF a.t = "u" THEN CV("u", ShrL(a.v, n))
  ELSE CV("s", ShrA(a.v, n))

(* ---------------- comparison ---------------- *)
CRel(op, x, y) ==
  CASE op = "eq" -> x = y [] op = "ne" -> x # y [] op = "lt" -> x < y
    [] op = "le" -> x <= y [] op = "gt" -> x > y [] op = "ge" -> x >= y

CCompare(op, a, b) ==
  IF a.t = "int" /\ b.t = "int" THEN CBool(CRel(op, a.v, b.v))
  ELSE IF (a.t = b.t /\ a.t \in {"bit", "bool", "enum"}) THEN
       (IF op \in {"eq", "ne"} THEN CBool(CRel(op, a.v, b.v)) ELSE CErr("reject:ordering of " \o a.t))
  ELSE IF a.t = "bv" /\ b.t = "bv" THEN
       (IF op \in {"eq", "ne"} /\ CWidth(a) = CWidth(b) THEN CBool(CRel(op, a.v, b.v))
        ELSE CErr("reject:BitVector comparison"))
  \* a BitVector compared with a bit-string literal of its width (the `case "0101":` pattern of a match statement)
  ELSE IF (a.t = "bv" /\ b.t = "str") \/ (a.t = "str" /\ b.t = "bv") THEN
       (IF op \in {"eq", "ne"} /\ Len(a.v) = Len(b.v) THEN CBool(CRel(op, a.v, b.v))
        ELSE CErr("reject:BitVector comparison with a literal of another width"))
  ELSE
  LET kind == IF a.t = "int" THEN b.t ELSE a.t IN
  IF ~(kind \in {"u", "s"}) \/ ~(a.t \in {kind, "int"}) \/ ~(b.t \in {kind, "int"})
    THEN CErr("reject:comparison of " \o a.t \o " and " \o b.t)
  ELSE CBool(CRel(op, IF a.t = "int" THEN a.v ELSE CNum(a), IF b.t = "int" THEN b.v ELSE CNum(b)))

(* ---------------- truth value (C02: and/or/not as truth values) ---------------- *)
CTruth(a) ==
  CASE a.t \in {"bool", "pybool"} -> a.v = 1
    [] a.t = "bit" -> a.v = 1
    [] a.t = "int" -> a.v # 0
    [] CIsVec(a) -> \E i \in 1..CWidth(a) : a.v[i] = 1
    [] OTHER -> FALSE

(* ---------------- unary ---------------- *)
CUnary(op, a) ==
  CASE op = "inv" ->
         IF a.t = "bit" THEN CBit(Not3(a.v))
         ELSE IF CIsVec(a) THEN CV(a.t, NotV(a.v))
         ELSE IF a.t = "bool" THEN CV("bool", 1 - a.v)
         ELSE CErr("reject:invert of " \o a.t)
    [] op = "neg" ->
         IF a.t = "int" THEN CInt(-a.v)
         ELSE IF CIsNum(a) THEN (IF Known(a.v) THEN CV(a.t, NegV(a.v)) ELSE CV(a.t, AllU(CWidth(a))))
         ELSE CErr("reject:negation of " \o a.t)
    [] op = "abs" ->
         IF a.t = "int" THEN CInt(AbsI(a.v))
         ELSE IF a.t = "s" THEN (IF ~Known(a.v) THEN a ELSE IF a.v[CWidth(a)] = 1 THEN CV("s", NegV(a.v)) ELSE a)
         ELSE IF a.t = "u" THEN a
         ELSE CErr("reject:abs of " \o a.t)
    [] op = "not" -> CBool(~CTruth(a))
    [] op = "bool" -> CBool(CTruth(a))

(* ---------------- views, resize, slices ---------------- *)
CView(a, to) == IF CIsVec(a) THEN CV(to, a.v) ELSE CErr("reject:view of " \o a.t)

\* resize(w): "Unsigned zero-extends, Signed sign-extends"; narrowing is not part of the documented resize
CResize(a, w) ==
  IF ~CIsNum(a) THEN CErr("reject:resize of " \o a.t)
  ELSE IF w < CWidth(a) THEN CErr("reject:resize to a narrower width")
  ELSE CV(a.t, CExt(a, w))

CSlice(a, hi, lo) ==
  IF ~CIsVec(a) THEN CErr("reject:slice of " \o a.t)
  ELSE IF lo < 0 \/ hi >= CWidth(a) \/ hi < lo THEN CErr("reject:slice out of range")
  ELSE CV("bv", Slice(a.v, hi, lo))   \* a slice of any vector is a plain BitVector

CIndex(a, i) ==
  IF CIsVec(a) THEN
       (IF i < 0 \/ i >= CWidth(a) THEN CErr("undefined") ELSE CBit(a.v[i + 1]))
  ELSE IF a.t = "arr" THEN
       (IF i < 0 \/ i >= Len(a.v) THEN CErr("undefined") ELSE a.v[i + 1])
  ELSE CErr("reject:index of " \o a.t)

\* "the left operand of @ forms the most significant bits"; bits concatenate as well
CConcat(a, b) ==
  LET va == IF a.t = "bit" THEN <<a.v>> ELSE a.v
      vb == IF b.t = "bit" THEN <<b.v>> ELSE b.v
  IN IF (CIsVec(a) \/ a.t = "bit") /\ (CIsVec(b) \/ b.t = "bit") THEN CV("bv", Concat(va, vb))
     ELSE CErr("reject:concatenation of " \o a.t \o " and " \o b.t)

(* ---------------- expression evaluation ---------------- *)
\* rd : [name -> value]  (what a read of the name yields at this point of the activation)
RECURSIVE CEval(_, _)
CEval(e, rd) ==
  CASE e.k = "ref" -> IF e.n \in DOMAIN rd THEN rd[e.n] ELSE CErr("reject:unknown name " \o e.n)
    [] e.k = "lit" -> CLit(e.ty, e.v)
    [] e.k = "int" -> CInt(e.v)
    [] e.k = "null" -> CV("null", 0)     \* cohdl.Null / cohdl.Full: typed by the assignment target
    [] e.k = "full" -> CV("full", 0)
    [] e.k = "strlit" -> CV("str", e.b)  \* a bit-string literal: typed by the assignment target
    [] e.k = "true" -> CV("pybool", 1)   \* Python's True/False literals are ints (bool is a subclass of int)
    [] e.k = "false" -> CV("pybool", 0)
    [] e.k = "un" -> LET a == CEval(e.e, rd) IN IF CIsErr(a) THEN a ELSE CUnary(e.op, a)
    [] e.k = "bin" ->
         LET a == CEval(e.l, rd) b == CEval(e.r, rd) IN
         IF CIsErr(a) THEN a ELSE IF CIsErr(b) THEN b
         ELSE IF e.op \in {"add", "sub", "mul", "truncdiv", "mod", "rem"} THEN CArith(e.op, a, b)
         ELSE IF e.op \in {"and", "or", "xor"} THEN CBitwise(e.op, a, b)
         ELSE IF e.op \in {"lshift", "rshift"} THEN CShift(e.op, a, b)
         ELSE IF e.op \in {"eq", "ne", "lt", "le", "gt", "ge"} THEN CCompare(e.op, a, b)
         ELSE IF e.op = "concat" THEN CConcat(a, b)
         ELSE IF e.op = "land" THEN CBool(CTruth(a) /\ CTruth(b))   \* Python `and` of run-time values: the truth value
         ELSE IF e.op = "lor" THEN CBool(CTruth(a) \/ CTruth(b))
         ELSE CErr("reject:operator " \o e.op)
    [] e.k = "chain" ->   \* a < b <= c ... : conjunction of the pairwise comparisons
         LET vs == [i \in 1..Len(e.es) |-> CEval(e.es[i], rd)]
             bad == {i \in 1..Len(vs) : CIsErr(vs[i])}
             cs == [i \in 1..Len(e.ops) |-> CCompare(e.ops[i], vs[i], vs[i + 1])]
             badc == {i \in 1..Len(cs) : CIsErr(cs[i])}
         IN IF bad # {} THEN vs[CHOOSE i \in bad : TRUE]
            ELSE IF badc # {} THEN cs[CHOOSE i \in badc : TRUE]
            ELSE CBool(\A i \in 1..Len(cs) : cs[i].v = 1)
    [] e.k = "ifexp" ->
         LET c == CEval(e.c, rd) IN
         IF CIsErr(c) THEN c ELSE IF CTruth(c) THEN CEval(e.a, rd) ELSE CEval(e.b, rd)
    [] e.k = "select" ->   \* cohdl.select_with(arg, {key: value, ...}, default): the value of the branch whose key equals arg
         LET a == CEval(e.e, rd)
             eqs == [i \in 1..Len(e.keys) |-> CCompare("eq", a, CEval(e.keys[i], rd))]
             bad == {i \in 1..Len(eqs) : CIsErr(eqs[i])}
             hits == {i \in 1..Len(eqs) : ~CIsErr(eqs[i]) /\ eqs[i].v = 1}
         IN IF CIsErr(a) THEN a
            ELSE IF bad # {} THEN eqs[CHOOSE i \in bad : TRUE]
            ELSE IF hits # {} THEN CEval(e.vals[CHOOSE i \in hits : \A j \in hits : i <= j], rd)
            ELSE IF e.hasdefault = 1 THEN CEval(e.default, rd)
            ELSE CErr("undefined")                 \* no branch selected and no default: nothing is specified
    [] e.k \in {"any", "all"} ->   \* Python's any / all over run-time values: the truth values
         LET vs == [i \in 1..Len(e.es) |-> CEval(e.es[i], rd)]
             bad == {i \in 1..Len(vs) : CIsErr(vs[i])}
         IN IF bad # {} THEN vs[CHOOSE i \in bad : TRUE]
            ELSE IF e.k = "any" THEN CBool(\E i \in 1..Len(vs) : CTruth(vs[i]))
            ELSE CBool(\A i \in 1..Len(vs) : CTruth(vs[i]))
    [] e.k = "slice" -> LET a == CEval(e.e, rd) IN IF CIsErr(a) THEN a ELSE CSlice(a, e.hi, e.lo)
    [] e.k = "idx" -> LET a == CEval(e.e, rd) IN IF CIsErr(a) THEN a ELSE CIndex(a, e.i)
    [] e.k = "dynidx" ->
         LET a == CEval(e.e, rd) i == CEval(e.i, rd) IN
         IF CIsErr(a) THEN a ELSE IF CIsErr(i) THEN i
         ELSE IF i.t = "int" THEN CIndex(a, i.v)
         ELSE IF i.t = "u" THEN (IF Known(i.v) THEN CIndex(a, ToNat(i.v)) ELSE CErr("undefined"))
         ELSE CErr("reject:index type " \o i.t)
    [] e.k = "view" -> LET a == CEval(e.e, rd) IN IF CIsErr(a) THEN a ELSE CView(a, e.to)
    [] e.k = "resize" -> LET a == CEval(e.e, rd) IN IF CIsErr(a) THEN a ELSE CResize(a, e.w)
    [] e.k = "call" ->   \* std helper applied to run-time operands: its mathematical definition (Helpers.tla)
         LET as == [i \in 1..Len(e.args) |-> CEval(e.args[i], rd)]
             bad == {i \in 1..Len(as) : CIsErr(as[i])}
             A(i) == as[i].v
             P(i) == e.p[i]
             f == e.f
         IN IF bad # {} THEN as[CHOOSE i \in bad : TRUE]
            ELSE IF \E i \in 1..Len(as) : CIsVec(as[i]) /\ ~Known(as[i].v) THEN CErr("undefined")
            ELSE CASE f = "count_set_bits" -> CInt(CountSetBits(A(1)))
                   [] f = "count_clear_bits" -> CInt(CountClearBits(A(1)))
                   [] f = "count_trailing_zeros" -> CInt(TrailingZeros(A(1)))
                   [] f = "count_trailing_ones" -> CInt(TrailingOnes(A(1)))
                   [] f = "count_leading_zeros" -> CInt(LeadingZeros(A(1)))
                   [] f = "count_leading_ones" -> CInt(LeadingOnes(A(1)))
                   [] f = "is_one_hot" -> CBool(IsOneHot(A(1)))
                   [] f = "reverse_bits" -> CV("bv", ReverseBits(A(1)))
                   [] f = "rol" -> CV("bv", Rol(A(1), P(1)))
                   [] f = "ror" -> CV("bv", Ror(A(1), P(1)))
                   [] f = "stretch" -> CV("bv", Stretch(A(1), P(1)))
                   [] f = "repeat" -> CV("bv", Repeat(A(1), P(1)))
                   [] f = "leftpad" -> CV("bv", LeftPad(A(1), P(1), 0))
                   [] f = "rightpad" -> CV("bv", RightPad(A(1), P(1), 0))
                   [] f = "lshift_fill" -> CV("bv", LshiftFill(A(1), IF as[2].t = "bit" THEN <<as[2].v>> ELSE A(2)))
                   [] f = "rshift_fill" -> CV("bv", RshiftFill(A(1), IF as[2].t = "bit" THEN <<as[2].v>> ELSE A(2)))
                   [] f = "apply_mask" -> CV("bv", ApplyMask(A(1), A(2), A(3)))
                   [] f = "select_batch" -> CV("bv", SelectBatch(A(1), A(2), P(1)))
                   [] f = "one_hot" -> (IF ToNat(A(1)) < P(1) THEN CV("bv", OneHot(P(1), ToNat(A(1)))) ELSE CErr("undefined"))
                   [] f = "minimum" -> CV("u", FromInt(Minimum([i \in 1..Len(as) |-> ToNat(A(i))]), Len(A(1))))
                   [] f = "maximum" -> CV("u", FromInt(Maximum([i \in 1..Len(as) |-> ToNat(A(i))]), Len(A(1))))
                   [] f = "min_index" -> CInt(MinIndex([i \in 1..Len(as) |-> ToNat(A(i))]) - 1)
                   [] f = "max_index" -> CInt(MaxIndex([i \in 1..Len(as) |-> ToNat(A(i))]) - 1)
                   [] f = "clamp" -> CV("u", FromInt(Clamp(ToNat(A(1)), P(1), P(2)), Len(A(1))))
                   [] f = "count" -> CInt(Count([i \in 1..(Len(as) - 1) |-> ToNat(A(i))], ToNat(A(Len(as)))))
                   \* "choose_first: returns the first VALUE with a truthy CONDITION or default if no such CONDITION exists"
                   \* arguments: c1, v1, c2, v2, ..., default
                   [] f = "choose_first" -> LET n == (Len(as) - 1) \div 2
                                                hits == {i \in 1..n : CTruth(as[2 * i - 1])}
                                            IN IF hits # {} THEN as[2 * (CHOOSE i \in hits : \A j \in hits : i <= j)] ELSE as[Len(as)]
                   \* "cond[T](cond, on_true, on_false): a type checked wrapper around an if expression"
                   [] f = "cond" -> IF CTruth(as[1]) THEN as[2] ELSE as[3]
                   \* "select[T](arg, branches, default): a type checked wrapper around cohdl.select_with"; arguments: arg, k1, v1, ..., default
                   [] f = "select" -> LET n == (Len(as) - 2) \div 2
                                          hits == {i \in 1..n : LET c == CCompare("eq", as[1], as[2 * i]) IN ~CIsErr(c) /\ c.v = 1}
                                      IN IF hits # {} THEN as[2 * (CHOOSE i \in hits : \A j \in hits : i <= j) + 1] ELSE as[Len(as)]
                   [] OTHER -> CErr("reject:unknown helper " \o f)
    [] OTHER -> CErr("reject:expression kind " \o e.k)
=============================================================================
