------------------------------ MODULE Handover ------------------------------
(***************************************************************************)
(* C15: std.SyncFlag / std.Mailbox hand over every event exactly once.     *)
(*  "Every set/send issued while the producer context observes the flag as *)
(*   clear is observed by the consumer context exactly once, payloads      *)
(*   arrive unmodified and in order, a set issued while the flag is already *)
(*   set has no effect, the producer observes the flag as clear again only *)
(*   after the consumer has cleared it, and the consumer never observes    *)
(*   again a set it already consumed."                                     *)
(* Abstract state: one slot, empty or holding the payload in flight.       *)
(***************************************************************************)
EXTENDS Naturals, Sequences

Empty == [full |-> 0, v |-> 0]
Holding(v) == [full |-> 1, v |-> v]

\* what the two contexts did in one step: sent (with payload v) and/or received
\* legal exactly when the producer acted on a truly clear flag and the consumer on a truly set one
Legal(slot, sent, received) == (sent = 1 => slot.full = 0) /\ (received = 1 => slot.full = 1)
Step(slot, sent, v, received) ==
  IF received = 1 THEN Empty ELSE IF sent = 1 THEN Holding(v) ELSE slot
=============================================================================
