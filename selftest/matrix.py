#!/usr/bin/env python3
"""Binding self-test: run the owning check of every seeded defect on a patched scratch copy of the repository.

  selftest/matrix.py [--only C01a,C02b] [--tier quick] [--jobs 2]

For each /verif/seeded/<id>/patch.diff: copy /repo (HEAD working tree) to a scratch directory outside /repo and /verif,
apply the patch there, run `./check <Cxx>` with VERIF_REPO pointing at the copy and VERIF_OUT at a scratch output
directory (so the evidence of the real tree is not overwritten), record whether the check raised a VIOLATION, remove
the copy.  Writes selftest/MATRIX.json and prints one line per seeded defect.  Nothing is ever applied to /repo itself.
"""
import os, sys, json, subprocess, tempfile, shutil, argparse, time, re
import concurrent.futures as cf

VERIF = os.path.dirname(os.path.dirname(os.path.abspath(__file__)))


def run_one(args):
    sid, tier, extra_checks = args
    prop = sid[:3]
    patch = os.path.join(VERIF, "seeded", sid, "patch.diff")
    tmp = tempfile.mkdtemp(prefix=f"cohdl_seed_{sid}_")
    res = {"id": sid, "property": prop, "checks": {}}
    try:
        repo = os.path.join(tmp, "repo")
        subprocess.run(["git", "clone", "-q", "--no-hardlinks", "/repo", repo], check=True)
        p = subprocess.run(["git", "-C", repo, "apply", patch], capture_output=True, text=True)
        if p.returncode != 0:
            res["error"] = "patch does not apply to the current tree: " + p.stderr[:200]
            return res
        for chk in [prop] + extra_checks:
            out = os.path.join(tmp, "out_" + chk)
            os.makedirs(out, exist_ok=True)
            env = dict(os.environ, VERIF_REPO=repo, VERIF_OUT=out)
            t0 = time.time()
            q = subprocess.run([os.path.join(VERIF, "check"), chk, "--tier", tier], env=env, capture_output=True, text=True, cwd=VERIF)
            lines = [l for l in q.stdout.splitlines() if l.startswith("VIOLATION")]
            first = ""
            m = re.search(r"VIOLATION[^\n]*\n  ([^\n]*)", q.stdout)
            if m:
                first = m.group(1)[:200]
            res["checks"][chk] = {"rc": q.returncode, "violations": len(lines), "first": first, "wall_s": round(time.time() - t0, 1),
                                  "machinery": "MACHINERY-ERROR" in q.stderr}
    finally:
        shutil.rmtree(tmp, ignore_errors=True)
    return res


# checks other than the owning one that are expected to see a seeded defect too (shared machinery)
ALSO = {"C02b": ["C05"], "C03a": ["C04"], "C13b": ["C02"], "C06b": ["C02"]}


def main():
    ap = argparse.ArgumentParser()
    ap.add_argument("--only", default="")
    ap.add_argument("--tier", default="quick")
    ap.add_argument("--jobs", type=int, default=1)
    a = ap.parse_args()
    ids = sorted(d for d in os.listdir(os.path.join(VERIF, "seeded")) if os.path.exists(os.path.join(VERIF, "seeded", d, "patch.diff")))
    if a.only:
        ids = [i for i in ids if i in a.only.split(",")]
    results = []
    with cf.ThreadPoolExecutor(a.jobs) as ex:
        for r in ex.map(run_one, [(i, a.tier, ALSO.get(i, [])) for i in ids]):
            results.append(r)
            own = r["checks"].get(r["property"], {})
            caught = [c for c, v in r["checks"].items() if v["rc"] == 1 and v["violations"] > 0]
            print(f"{r['id']}: {'CAUGHT by ' + ','.join(caught) if caught else 'missed'}  {r.get('error', '')} {own.get('first', '')[:120]}", flush=True)
    path = os.path.join(os.environ.get("VERIF_MATRIX_OUT", os.path.join(VERIF, "selftest")), "MATRIX.json")
    old = {}
    if os.path.exists(path) and a.only:
        old = {r["id"]: r for r in json.load(open(path))}
    for r in results:
        old[r["id"]] = r
    json.dump([old[k] for k in sorted(old)] if a.only else results, open(path, "w"), indent=1)


if __name__ == "__main__":
    main()
