#!/bin/sh
# usage: selftest/with_patch.sh <patch.diff> <command...>   -- applies the patch to /repo, runs the command, always reverts
P="$(realpath "$1")"; shift
git -C /repo diff --quiet || { echo "/repo is dirty; refusing" >&2; exit 3; }
git -C /repo apply "$P" || { echo "patch does not apply" >&2; exit 3; }
"$@"; rc=$?
git -C /repo checkout -- .
exit $rc
