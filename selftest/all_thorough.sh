#!/bin/sh
# sanity run of every thorough tier on the unchanged tree; prints one line per check
cd "$(dirname "$0")/.."
for c in ${CHECKS:-C01 C02 C03 C04 C05 C06 C07 C08 C09 C10 C11 C12 C13 C14 C15 C16 C17 C18 C19 C20}; do
  s=$(date +%s)
  VERIF_OUT=${VERIF_OUT:-/tmp/thorough_out} ./check $c --tier thorough > /tmp/thorough_$c.log 2>&1
  rc=$?
  e=$(date +%s)
  echo "$c rc=$rc wall=$((e-s))s viol=$(grep -c '^VIOLATION' /tmp/thorough_$c.log) mach=$(grep -c 'MACHINERY' /tmp/thorough_$c.log)"
  grep -A1 '^VIOLATION\|MACHINERY' /tmp/thorough_$c.log | head -12 | cut -c1-300
done
