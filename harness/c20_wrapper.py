from __future__ import annotations
import cohdl
from cohdl import Port, Bit, BitVector, Unsigned, Null, Signal
from cohdl import std
from cohdl.std.axi import axi4_light as axi
from cohdl.std.reg import reg32


class MyRegister(reg32.Register):
    lower: reg32.Field[15:0]
    upper: reg32.MemField[31:16, Null]

    def _impl_concurrent_(self) -> None:
        self.lower <<= ~self.upper.val()


class MyRoot(reg32.AddrMap, word_count=4):
    w0: reg32.MemWord[0]
    w1: reg32.MemWord[4]
    r2: MyRegister[8]


class MemRoot(reg32.AddrMap):
    w0: reg32.MemWord[0x00]
    mem: reg32.Memory[0x10:0x1C]
    w7: reg32.MemWord[0x1C]

    def _config_(self):
        self.mem._config_(inline=True)


class AxiW(cohdl.Entity):
    clk = Port.input(Bit)
    reset = Port.input(Bit)
    axi_awaddr = Port.input(Unsigned[32])
    axi_awprot = Port.input(Unsigned[3])
    axi_awvalid = Port.input(Bit)
    axi_awready = Port.output(Bit, default=Null)
    axi_wdata = Port.input(BitVector[32])
    axi_wstrb = Port.input(BitVector[4])
    axi_wvalid = Port.input(Bit)
    axi_wready = Port.output(Bit, default=Null)
    axi_bresp = Port.output(BitVector[2], default=Null)
    axi_bvalid = Port.output(Bit, default=Null)
    axi_bready = Port.input(Bit)
    axi_araddr = Port.input(Unsigned[32])
    axi_arprot = Port.input(Unsigned[3])
    axi_arvalid = Port.input(Bit)
    axi_arready = Port.output(Bit, default=Null)
    axi_rdata = Port.output(BitVector[32], default=Null)
    axi_rresp = Port.output(BitVector[2], default=Null)
    axi_rvalid = Port.output(Bit, default=Null)
    axi_rready = Port.input(Bit)
    o_w0 = Port.output(BitVector[32])
    o_w1 = Port.output(BitVector[32])
    o_r2 = Port.output(BitVector[16])

    def architecture(self):
        clk = std.Clock(self.clk)
        reset = std.Reset(self.reset)
        axi_con = axi.Axi4Light(
            clk=clk, reset=reset,
            wraddr=axi.Axi4Light.WrAddr(valid=self.axi_awvalid, ready=self.axi_awready, awaddr=self.axi_awaddr, awprot=self.axi_awprot),
            wrdata=axi.Axi4Light.WrData(valid=self.axi_wvalid, ready=self.axi_wready, wdata=self.axi_wdata, wstrb=self.axi_wstrb),
            wrresp=axi.Axi4Light.WrResp(valid=self.axi_bvalid, ready=self.axi_bready, bresp=self.axi_bresp),
            rdaddr=axi.Axi4Light.RdAddr(valid=self.axi_arvalid, ready=self.axi_arready, araddr=self.axi_araddr, arprot=self.axi_arprot),
            rddata=axi.Axi4Light.RdData(valid=self.axi_rvalid, ready=self.axi_rready, rdata=self.axi_rdata, rresp=self.axi_rresp),
        )
        root = MyRoot()
        axi_con.connect_addr_map(root)
        std.concurrent_assign(self.o_w0, root.w0.raw)
        std.concurrent_assign(self.o_w1, root.w1.raw)
        std.concurrent_assign(self.o_r2, root.r2.upper.val())



class AxiM(cohdl.Entity):
    clk = Port.input(Bit)
    reset = Port.input(Bit)
    axi_awaddr = Port.input(Unsigned[32])
    axi_awprot = Port.input(Unsigned[3])
    axi_awvalid = Port.input(Bit)
    axi_awready = Port.output(Bit, default=Null)
    axi_wdata = Port.input(BitVector[32])
    axi_wstrb = Port.input(BitVector[4])
    axi_wvalid = Port.input(Bit)
    axi_wready = Port.output(Bit, default=Null)
    axi_bresp = Port.output(BitVector[2], default=Null)
    axi_bvalid = Port.output(Bit, default=Null)
    axi_bready = Port.input(Bit)
    axi_araddr = Port.input(Unsigned[32])
    axi_arprot = Port.input(Unsigned[3])
    axi_arvalid = Port.input(Bit)
    axi_arready = Port.output(Bit, default=Null)
    axi_rdata = Port.output(BitVector[32], default=Null)
    axi_rresp = Port.output(BitVector[2], default=Null)
    axi_rvalid = Port.output(Bit, default=Null)
    axi_rready = Port.input(Bit)
    o_w0 = Port.output(BitVector[32])
    o_w7 = Port.output(BitVector[32])

    def architecture(self):
        clk = std.Clock(self.clk)
        reset = std.Reset(self.reset)
        axi_con = axi.Axi4Light(
            clk=clk, reset=reset,
            wraddr=axi.Axi4Light.WrAddr(valid=self.axi_awvalid, ready=self.axi_awready, awaddr=self.axi_awaddr, awprot=self.axi_awprot),
            wrdata=axi.Axi4Light.WrData(valid=self.axi_wvalid, ready=self.axi_wready, wdata=self.axi_wdata, wstrb=self.axi_wstrb),
            wrresp=axi.Axi4Light.WrResp(valid=self.axi_bvalid, ready=self.axi_bready, bresp=self.axi_bresp),
            rdaddr=axi.Axi4Light.RdAddr(valid=self.axi_arvalid, ready=self.axi_arready, araddr=self.axi_araddr, arprot=self.axi_arprot),
            rddata=axi.Axi4Light.RdData(valid=self.axi_rvalid, ready=self.axi_rready, rdata=self.axi_rdata, rresp=self.axi_rresp),
        )
        root = MemRoot()
        axi_con.connect_addr_map(root)
        std.concurrent_assign(self.o_w0, root.w0.raw)
        std.concurrent_assign(self.o_w7, root.w7.raw)



class Cnt(reg32.Register):
    data: reg32.MemField[15:0, Null]
    rd_cnt: reg32.UField[19:16, Null]
    wr_cnt: reg32.UField[23:20, Null]
    rd_n: reg32.PushOnNotify.Read
    wr_n: reg32.PushOnNotify.Write

    def _impl_sequential_(self):
        if self.rd_n:
            self.rd_cnt <<= self.rd_cnt.val() + 1
        if self.wr_n:
            self.wr_cnt <<= self.wr_cnt.val() + 1


class Inner(reg32.RegFile, word_count=2):
    a: reg32.MemWord[0]
    b: reg32.MemWord[4]


class NRoot(reg32.AddrMap):
    c: Cnt[0x00]
    arr: reg32.Array[reg32.MemWord, 0x10:0x18:4]
    inner: Inner[0x20]
    inp: reg32.Input[0x30]
    outp: reg32.Output[0x34]

    def _config_(self, sig_in, sig_out):
        self.inp._config_(sig_in)
        self.outp._config_(sig_out)


class AxiN(cohdl.Entity):
    clk = Port.input(Bit)
    reset = Port.input(Bit)
    axi_awaddr = Port.input(Unsigned[32])
    axi_awprot = Port.input(Unsigned[3])
    axi_awvalid = Port.input(Bit)
    axi_awready = Port.output(Bit, default=Null)
    axi_wdata = Port.input(BitVector[32])
    axi_wstrb = Port.input(BitVector[4])
    axi_wvalid = Port.input(Bit)
    axi_wready = Port.output(Bit, default=Null)
    axi_bresp = Port.output(BitVector[2], default=Null)
    axi_bvalid = Port.output(Bit, default=Null)
    axi_bready = Port.input(Bit)
    axi_araddr = Port.input(Unsigned[32])
    axi_arprot = Port.input(Unsigned[3])
    axi_arvalid = Port.input(Bit)
    axi_arready = Port.output(Bit, default=Null)
    axi_rdata = Port.output(BitVector[32], default=Null)
    axi_rresp = Port.output(BitVector[2], default=Null)
    axi_rvalid = Port.output(Bit, default=Null)
    axi_rready = Port.input(Bit)
    i_in = Port.input(BitVector[32])
    o_out = Port.output(BitVector[32])
    o_a0 = Port.output(BitVector[32])
    o_a1 = Port.output(BitVector[32])
    o_ia = Port.output(BitVector[32])
    o_ib = Port.output(BitVector[32])
    o_rd = Port.output(Unsigned[4])
    o_wr = Port.output(Unsigned[4])
    o_data = Port.output(BitVector[16])

    def architecture(self):
        clk = std.Clock(self.clk)
        reset = std.Reset(self.reset)
        axi_con = axi.Axi4Light(
            clk=clk, reset=reset,
            wraddr=axi.Axi4Light.WrAddr(valid=self.axi_awvalid, ready=self.axi_awready, awaddr=self.axi_awaddr, awprot=self.axi_awprot),
            wrdata=axi.Axi4Light.WrData(valid=self.axi_wvalid, ready=self.axi_wready, wdata=self.axi_wdata, wstrb=self.axi_wstrb),
            wrresp=axi.Axi4Light.WrResp(valid=self.axi_bvalid, ready=self.axi_bready, bresp=self.axi_bresp),
            rdaddr=axi.Axi4Light.RdAddr(valid=self.axi_arvalid, ready=self.axi_arready, araddr=self.axi_araddr, arprot=self.axi_arprot),
            rddata=axi.Axi4Light.RdData(valid=self.axi_rvalid, ready=self.axi_rready, rdata=self.axi_rdata, rresp=self.axi_rresp),
        )
        sig_out = Signal[BitVector[32]](Null)
        root = NRoot(self.i_in, sig_out)
        axi_con.connect_addr_map(root)
        std.concurrent_assign(self.o_out, sig_out)
        std.concurrent_assign(self.o_a0, root.arr[0].raw)
        std.concurrent_assign(self.o_a1, root.arr[1].raw)
        std.concurrent_assign(self.o_ia, root.inner.a.raw)
        std.concurrent_assign(self.o_ib, root.inner.b.raw)
        std.concurrent_assign(self.o_rd, root.c.rd_cnt.val())
        std.concurrent_assign(self.o_wr, root.c.wr_cnt.val())
        std.concurrent_assign(self.o_data, root.c.data.val())


if __name__ == "__main__":
    print(std.VhdlCompiler.to_string(AxiW))
    print(std.VhdlCompiler.to_string(AxiM))
    print(std.VhdlCompiler.to_string(AxiN))
