"""C10 classes: method resolution order, cooperative super() through methods, properties and __call__.
Runs under /venv/bin/python.

  pyobs_c10_classes.py <cases.json> <workdir> <out.json>
cases: [{"id", "h": [{"bases": [..], "def": ..} x4], "ok", "mro", "res", "kind": "method"|"property"|"call"}]
-> {"spec_vs_cpython": [...], "tracer": [...], "checked", "rejected_valid"}
"""
import sys, os, json, importlib

NAMES = "ABCD"


def class_src(cid, h, kind):
    out = []
    for i, c in enumerate(h):
        nm = f"{NAMES[i]}{cid}"
        bases = ", ".join(f"{NAMES[b - 1]}{cid}" for b in c["bases"])
        out.append(f"class {nm}({bases}):" if bases else f"class {nm}:")
        d = c["def"]
        if d == "none":
            out.append("    pass")
            continue
        if kind == "method":
            out.append("    def m(self):")
            out.append(f"        return [{i + 1}]" if d == "leaf" else f"        return [{i + 1}, *super().m()]")
        elif kind == "property":
            out.append("    @property")
            out.append("    def p(self):")
            out.append(f"        return [{i + 1}]" if d == "leaf" else f"        return [{i + 1}, *super().p]")
        else:
            out.append("    def __call__(self):")
            out.append(f"        return [{i + 1}]" if d == "leaf" else f"        return [{i + 1}, *super().__call__()]")
    return out


def use(cid, kind):
    obj = f"D{cid}()"
    return f"{obj}.m()" if kind == "method" else f"{obj}.p" if kind == "property" else f"{obj}()"


def main():
    cases = json.load(open(sys.argv[1]))
    work = sys.argv[2]
    spec_vs_cpython, good = [], []
    for c in cases:
        ns = {}
        try:
            exec("\n".join(class_src(c["id"], c["h"], c["kind"])), ns)
            created = True
        except TypeError:
            created = False
        if created != c["ok"]:
            spec_vs_cpython.append({"id": c["id"], "what": "consistency", "cpython": created, "spec": c["ok"]})
            continue
        if not created:
            continue
        D = ns[f"D{c['id']}"]
        mro = [NAMES.index(k.__name__[0]) + 1 for k in D.__mro__ if k is not object]
        if mro != c["mro"]:
            spec_vs_cpython.append({"id": c["id"], "what": "mro", "cpython": mro, "spec": c["mro"]})
            continue
        try:
            got = eval(use(c["id"], c["kind"]), ns)
        except (AttributeError, TypeError):
            got = None
        exp = None if c["res"][-1] == 0 else c["res"]
        if got != exp:
            spec_vs_cpython.append({"id": c["id"], "what": "lookup", "cpython": got, "spec": exp})
            continue
        good.append(c)
    # tracer
    src = ["from __future__ import annotations", "import cohdl", "from cohdl import Bit, Port", "from cohdl import std", "",
           "RESULTS = {}", "def probe(tag, val):", "    RESULTS[tag] = val", ""]
    for c in good:
        src += class_src(c["id"], c["h"], c["kind"]) + [""]
    accepted = [c for c in good if c["res"][-1] != 0]
    raising = [c for c in good if c["res"][-1] == 0]
    groups = [accepted[j:j + 20] for j in range(0, len(accepted), 20)] + [[c] for c in raising]
    for g, cs in enumerate(groups):
        src += [f"class G{g}(cohdl.Entity):", "    o = Port.output(Bit)", "    def architecture(self):", "        @std.concurrent", "        def logic():"]
        for c in cs:
            src.append(f"            std.as_pyeval(probe, {c['id']}, {use(c['id'], c['kind'])})")
        src += ["            self.o <<= True", ""]
    for c in accepted:           # one entity per case as a fall-back when a batch is rejected
        src += [f"class S{c['id']}(cohdl.Entity):", "    o = Port.output(Bit)", "    def architecture(self):", "        @std.concurrent", "        def logic():",
                f"            std.as_pyeval(probe, {c['id']}, {use(c['id'], c['kind'])})", "            self.o <<= True", ""]
    sys.path.insert(0, work)
    open(os.path.join(work, "c10_cls_gen.py"), "w").write("\n".join(src))
    import cohdl
    from cohdl import std
    mod = importlib.import_module("c10_cls_gen")

    def compile_in_child(names):
        r, w = os.pipe()
        pid = os.fork()
        if pid == 0:
            os.close(r)
            out = {}
            for nm in names:
                mod.RESULTS.clear()
                try:
                    std.VhdlCompiler.to_string(getattr(mod, nm))
                    out[nm] = {"ok": True, "results": {str(k): v for k, v in mod.RESULTS.items()}}
                except BaseException as e:  # noqa
                    out[nm] = {"ok": False, "err": f"{type(e).__name__}: {e}"[:160]}
            with os.fdopen(w, "w") as fh:
                fh.write(json.dumps(out))
            os._exit(0)
        os.close(w)
        with os.fdopen(r) as fh:
            data = fh.read()
        os.waitpid(pid, 0)
        return json.loads(data) if data else {}

    res = compile_in_child([f"G{g}" for g in range(len(groups))])
    tracer, checked, rejected_valid = [], 0, 0
    retry = []
    for g, cs in enumerate(groups):
        r = res.get(f"G{g}", {"ok": False, "err": "child died"})
        for c in cs:
            exp = None if c["res"][-1] == 0 else c["res"]
            if exp is None:
                checked += 1
                if r["ok"]:
                    tracer.append({"id": c["id"], "kind": c["kind"], "h": c["h"], "clause": "value-where-cpython-raises", "tracer": r["results"].get(str(c["id"]))})
            elif not r["ok"]:
                retry.append(c)
            else:
                checked += 1
                if r["results"].get(str(c["id"])) != exp:
                    tracer.append({"id": c["id"], "kind": c["kind"], "h": c["h"], "clause": "lookup", "tracer": r["results"].get(str(c["id"])), "cpython": exp})
    if retry:
        res2 = compile_in_child([f"S{c['id']}" for c in retry])
        for c in retry:
            checked += 1
            r = res2.get(f"S{c['id']}", {"ok": False, "err": "child died"})
            if not r["ok"]:
                rejected_valid += 1
            elif r["results"].get(str(c["id"])) != c["res"]:
                tracer.append({"id": c["id"], "kind": c["kind"], "h": c["h"], "clause": "lookup", "tracer": r["results"].get(str(c["id"])), "cpython": c["res"]})
    json.dump({"spec_vs_cpython": spec_vs_cpython[:20], "n_spec_vs_cpython": len(spec_vs_cpython), "tracer": tracer, "checked": checked,
               "rejected_valid": rejected_valid, "cpython_checked": len(cases)}, open(sys.argv[3], "w"))


if __name__ == "__main__":
    main()
