"""The abstract design language (ADL): one JSON description, two readings.

 * to_python(entity)  -> CoHDL source text (compiled by the real compiler, harness/drive.py)
 * spec/CoSem.tla     -> interprets the same JSON as the reference semantics

Only constructors and the pretty-printer live here; no semantics.
"""
import json

# ---------------------------------------------------------------- types
def T(k, w=1):
    return {"k": k, "w": w}

BIT = T("bit")

def TA(el, n):
    """cohdl.Array[el, n]; the default of an array object is 0 = Null (every element zero) or absent"""
    return {"k": "arr", "w": n, "el": el}

def TE(n):
    """an enumeration with the n literals e0 .. e<n-1> (class En<n> of the generated module header)"""
    return {"k": "enum", "w": n}

def ty_py(ty):
    k = ty["k"]
    if k == "bit":
        return "Bit"
    if k == "bool":
        return "bool"
    if k == "arr":
        return f"Array[{ty_py(ty['el'])}, {ty['w']}]"
    if k == "enum":
        return f"En{ty['w']}"
    return {"bv": "BitVector", "u": "Unsigned", "s": "Signed"}[k] + f"[{ty['w']}]"

def lit_py(ty, v):
    """python expression constructing the literal value v (an int pattern) of type ty"""
    k = ty["k"]
    if k == "enum":
        return f"En{ty['w']}.e{v}"
    if k == "bit":
        return f"Bit({int(v)})"
    if k == "bool":
        return "True" if v else "False"
    w = ty["w"]
    if k == "bv":
        return f'BitVector[{w}]("{v % (1 << w):0{w}b}")'
    if k == "u":
        return f"Unsigned[{w}]({v % (1 << w)})"
    if k == "s":
        m = v % (1 << w)
        if m >= 1 << (w - 1):
            m -= 1 << w
        return f"Signed[{w}]({m})"
    raise ValueError(k)

def default_py(ty, v):
    k = ty["k"]
    if k == "arr":
        assert v == 0
        return "Null"
    if k == "enum":
        return f"En{ty['w']}.e{v}"
    if k == "bit":
        return "True" if v else "False"
    if k == "bool":
        return "True" if v else "False"
    w = ty["w"]
    if k == "bv":
        return f'"{v % (1 << w):0{w}b}"'
    if k == "u":
        return str(v % (1 << w))
    m = v % (1 << w)
    if m >= 1 << (w - 1):
        m -= 1 << w
    return str(m)

# ---------------------------------------------------------------- declarations
def port(n, d, ty, default=None, noreset=False):
    return {"n": n, "dir": d, "ty": ty, "hasdefault": 0 if default is None else 1,
            "default": 0 if default is None else default, "noreset": 1 if noreset else 0}

def obj(n, q, ty, default=None, noreset=False, local=False):
    """local=True: the object is constructed inside a context by a `local` statement (not declared in architecture())"""
    return {"n": n, "q": q, "ty": ty, "hasdefault": 0 if default is None else 1,
            "default": 0 if default is None else default, "noreset": 1 if noreset else 0, "local": 1 if local else 0}

def seq_ctx(name, body, clk="clk", reset=None, coroutine=False, step=None, edge="rising", onreset=None, onreset_form="ctor"):
    """onreset: statements of a registered on_reset action; form "ctor": std.sequential(clk, reset, on_reset=f),
    "call": std.sequential(clk, reset)(on_reset=f)"""
    return {"kind": "seq", "name": name, "clk": clk, "reset": reset or {"k": "none"},
            "coroutine": 1 if coroutine else 0, "body": body, "step": step or {"k": "none"}, "edge": edge,
            "onreset": onreset or [], "onreset_form": onreset_form}

def conc_ctx(name, body):
    return {"kind": "conc", "name": name, "clk": "", "reset": {"k": "none"}, "coroutine": 0, "body": body,
            "step": {"k": "none"}, "edge": ""}

def reset(portname, active_low=False, is_async=False):
    return {"k": "reset", "port": portname, "active_low": 1 if active_low else 0, "async": 1 if is_async else 0}

def entity(name, ports, objs, ctxs):
    return {"name": name, "ports": ports, "objs": objs, "ctxs": ctxs}

# ---------------------------------------------------------------- expressions
def ref(n): return {"k": "ref", "n": n}
def lit(ty, v): return {"k": "lit", "ty": ty, "v": v}
def pint(v): return {"k": "int", "v": v}
def un(op, e): return {"k": "un", "op": op, "e": e}
def bin_(op, l, r): return {"k": "bin", "op": op, "l": l, "r": r}
def chain(ops, es): return {"k": "chain", "ops": ops, "es": es}
def ifexp(c, a, b): return {"k": "ifexp", "c": c, "a": a, "b": b}
def select_(e, cases, default=None):
    """cohdl.select_with(e, {key: value, ...}, default=...); cases: [(key expr (int / lit / strlit), value expr)]"""
    return {"k": "select", "e": e, "keys": [k for k, _ in cases], "vals": [v for _, v in cases],
            "hasdefault": 0 if default is None else 1, "default": default if default is not None else {"k": "int", "v": 0}}
def any_(es): return {"k": "any", "es": es}
def all_(es): return {"k": "all", "es": es}
def slice_(e, hi, lo): return {"k": "slice", "e": e, "hi": hi, "lo": lo}
def idx(e, i): return {"k": "idx", "e": e, "i": i}
def dynidx(e, i): return {"k": "dynidx", "e": e, "i": i}
def view(e, to): return {"k": "view", "e": e, "to": to}
def resize(e, w): return {"k": "resize", "e": e, "w": w}
def call(f, args, p=None, ty=None):
    e = {"k": "call", "f": f, "args": args, "p": p or []}
    if ty is not None:
        e["ty"] = ty
    return e
NULL = {"k": "null"}
FULL = {"k": "full"}
def strlit(s): return {"k": "strlit", "s": s, "b": [int(c) for c in reversed(s)]}
TRUE = {"k": "true"}
FALSE = {"k": "false"}

# ---------------------------------------------------------------- statements
def target(o, path=None): return {"obj": o, "path": path or []}
def p_slice(hi, lo): return {"k": "slice", "hi": hi, "lo": lo}
def p_idx(i): return {"k": "idx", "i": i}
def p_dynidx(e): return {"k": "dynidx", "e": e}
def p_view(to): return {"k": "view", "to": to}
def assign(mode, t, e, form="op"): return {"k": "assign", "mode": mode, "t": t if isinstance(t, dict) else target(t), "e": e, "form": form}
def if_(c, th, el=None): return {"k": "if", "c": c, "th": th, "el": el or []}
def await_(c): return {"k": "await", "c": c}
def while_(c, body): return {"k": "while", "c": c, "body": body}
BREAK = {"k": "break"}
CONTINUE = {"k": "continue"}
def bind(n, e): return {"k": "bind", "n": n, "e": e}
def comment(text): return {"k": "comment", "text": text}
def match_(e, cases, default=None):
    """cases: [(value expr (int / lit / strlit), body)]; default: body of `case _` or None"""
    return {"k": "match", "e": e, "cases": [{"v": v, "body": b} for v, b in cases], "default": default or [], "hasdefault": 0 if default is None else 1}
def _subst(e, name, by):
    if isinstance(e, dict):
        if e.get("k") == "ref" and e.get("n") == name:
            return by
        return {k: _subst(v, name, by) for k, v in e.items()}
    if isinstance(e, list):
        return [_subst(x, name, by) for x in e]
    return e
def forchain(conds, vals, t, mode="next", elseval=None, tmpl=None):
    """for c_, v_ in zip(conds, vals): if c_: T <op> tmpl(v_); break  [else: T <op> elseval].
    mode "bind": the body is the Python assignment `T = tmpl(v_)` (an intermediate value).  tmpl is an expression over ref("v_")
    (printed once, in the loop body); `bes` are its instances per iteration, which is what the specification evaluates."""
    tmpl = tmpl or ref("v_")
    return {"k": "forchain", "conds": conds, "vals": vals, "t": t if isinstance(t, dict) else target(t), "mode": mode, "tmpl": tmpl,
            "bes": [_subst(tmpl, "v_", v) for v in vals],
            "haselse": 0 if elseval is None else 1, "elseval": elseval if elseval is not None else {"k": "int", "v": 0}}
def func(name, params, body, is_async=False):
    """a function (async: a sub-coroutine) defined in architecture(); parameters are bound to the argument OBJECTS"""
    return {"name": name, "params": params, "body": body, "async": 1 if is_async else 0}
def ret_(e=None): return {"k": "return", "has": 0 if e is None else 1, "e": e if e is not None else {"k": "int", "v": 0}}
def _rename(x, m):
    """apply a renaming of object / intermediate names to statements and expressions"""
    if isinstance(x, dict):
        if x.get("k") == "ref" and x.get("n") in m:
            return m[x["n"]] if isinstance(m[x["n"]], dict) else dict(x, n=m[x["n"]])
        y = {k: _rename(v, m) for k, v in x.items()}
        if "obj" in x and "path" in x and x["obj"] in m:          # an assignment target
            assert m[x["obj"]]["k"] == "ref", "only an object can be assigned through a parameter"
            y["obj"] = m[x["obj"]]["n"]
        if x.get("k") == "bind" and x["n"] in m:
            y["n"] = m[x["n"]]["n"]
        if x.get("k") == "ucall" and x.get("ret") in m:
            y["ret"] = m[x["ret"]]["n"]
        return y
    if isinstance(x, list):
        return [_rename(v, m) for v in x]
    return x
def _bound_names(ss, acc):
    for s in ss:
        if s["k"] == "bind":
            acc.add(s["n"])
        elif s["k"] == "ucall" and s["ret"]:
            acc.add(s["ret"])
        for k in ("th", "el", "body", "default"):
            if isinstance(s.get(k), list):
                _bound_names(s[k], acc)
        for c in s.get("cases", []):
            _bound_names(c["body"], acc)
    return acc
_SITE = [0]
def ucall(f, args, ret=None):
    """[ret =] [await] f(args).  `body` is the callee's body with the parameters replaced by the arguments and its own
    intermediates given names unique to this call (what the specification executes); the printer emits the call."""
    _SITE[0] += 1
    m = {p: a for p, a in zip(f["params"], args)}
    for n in _bound_names(f["body"], set()):
        m[n] = ref(f"{n}_c{_SITE[0]}")
    return {"k": "ucall", "f": f["name"], "args": args, "ret": ret or "", "aw": f["async"], "body": _rename(f["body"], m)}
def assume(c): return {"k": "assume", "c": c}                 # precondition in a reference description (prints nothing)
def alwaysblock(body): return {"k": "alwaysblock", "body": body}       # with cohdl.always: <concurrent assignments>
def always_(n, e): return {"k": "always", "n": n, "e": e}      # n = cohdl.always(e)
def local(n, ty, init, delayed=False): return {"k": "local", "n": n, "ty": ty, "init": init, "delayed": 1 if delayed else 0}
def waitfor(n, allow_zero=False, via="std"):
    return {"k": "waitfor", "n": n if isinstance(n, dict) else {"k": "int", "v": n}, "allow_zero": 1 if allow_zero else 0, "via": via}

# ---------------------------------------------------------------- pretty printer
_BINOP = {"add": "+", "sub": "-", "mul": "*", "mod": "%", "and": "&", "or": "|", "xor": "^",
          "lshift": "<<", "rshift": ">>", "eq": "==", "ne": "!=", "lt": "<", "le": "<=", "gt": ">", "ge": ">=",
          "concat": "@", "land": "and", "lor": "or"}
_CMP = {"eq": "==", "ne": "!=", "lt": "<", "le": "<=", "gt": ">", "ge": ">="}


class Printer:
    def __init__(self, ent):
        self.ent = ent
        self.portnames = {p["n"] for p in ent["ports"]}

    def name(self, n):
        return f"self.{n}" if n in self.portnames else n

    def expr(self, e):
        k = e["k"]
        if k == "ref":
            return self.name(e["n"])
        if k == "lit":
            return lit_py(e["ty"], e["v"])
        if k == "int":
            return f"({e['v']})" if e["v"] < 0 else str(e["v"])
        if k == "null":
            return "Null"
        if k == "full":
            return "Full"
        if k == "strlit":
            return f'"{e["s"]}"'
        if k == "true":
            return "True"
        if k == "false":
            return "False"
        if k == "un":
            a = self.expr(e["e"])
            return {"inv": f"(~{a})", "neg": f"(-{a})", "abs": f"abs({a})", "not": f"(not {a})", "bool": f"bool({a})"}[e["op"]]
        if k == "bin":
            a, b = self.expr(e["l"]), self.expr(e["r"])
            if e["op"] == "truncdiv":
                return f"cohdl.op.truncdiv({a}, {b})"
            if e["op"] == "rem":
                return f"cohdl.op.rem({a}, {b})"
            return f"({a} {_BINOP[e['op']]} {b})"
        if k == "chain":
            parts = [self.expr(e["es"][0])]
            for op, x in zip(e["ops"], e["es"][1:]):
                parts += [_CMP[op], self.expr(x)]
            return "(" + " ".join(parts) + ")"
        if k == "select":
            arms = ", ".join(f"{self.expr(kk)}: {self.expr(v)}" for kk, v in zip(e["keys"], e["vals"]))
            dflt = f", default={self.expr(e['default'])}" if e["hasdefault"] else ""
            return f"cohdl.select_with({self.expr(e['e'])}, {{{arms}}}{dflt})"
        if k in ("any", "all"):
            return f"{k}([{', '.join(self.expr(x) for x in e['es'])}])"
        if k == "ifexp":
            return f"({self.expr(e['a'])} if {self.expr(e['c'])} else {self.expr(e['b'])})"
        if k == "slice":
            return f"{self.expr(e['e'])}[{e['hi']}:{e['lo']}]"
        if k == "idx":
            return f"{self.expr(e['e'])}[{e['i']}]"
        if k == "dynidx":
            return f"{self.expr(e['e'])}[{self.expr(e['i'])}]"
        if k == "view":
            return f"{self.expr(e['e'])}.{ {'u': 'unsigned', 's': 'signed', 'bv': 'bitvector'}[e['to']] }"
        if k == "resize":
            return f"{self.expr(e['e'])}.resize({e['w']})"
        if k == "call":
            a = [self.expr(x) for x in e["args"]]
            f, p = e["f"], e["p"]
            if f in ("minimum", "maximum", "min_index", "max_index"):
                return f"std.{f}([{', '.join(a)}])"
            if f == "count":
                return f"std.count([{', '.join(a[:-1])}], {a[-1]})"
            if f == "one_hot":
                return f"std.one_hot({p[0]}, {a[0]})"
            if f == "clamp":
                return f"std.clamp({a[0]}, {p[0]}, {p[1]})"
            if f == "choose_first":        # args: c1, v1, c2, v2, ..., default;  e["ty"]: the checked result type
                pairs = ", ".join(f"({a[i]}, {a[i + 1]})" for i in range(0, len(a) - 1, 2))
                return f"std.choose_first[{ty_py(e['ty'])}]({pairs}, default={a[-1]})"
            if f == "cond":
                return f"std.cond[{ty_py(e['ty'])}]({a[0]}, {a[1]}, {a[2]})"
            if f == "select":              # args: arg, k1, v1, ..., default
                arms = ", ".join(f"{a[i]}: {a[i + 1]}" for i in range(1, len(a) - 1, 2))
                return f"std.select[{ty_py(e['ty'])}]({a[0]}, {{{arms}}}, default={a[-1]})"
            return f"std.{f}({', '.join(a + [str(x) for x in p])})"
        raise ValueError(k)

    def target(self, t):
        s = self.name(t["obj"])
        for p in t["path"]:
            if p["k"] == "slice":
                s += f"[{p['hi']}:{p['lo']}]"
            elif p["k"] == "idx":
                s += f"[{p['i']}]"
            elif p["k"] == "view":
                s += "." + {"u": "unsigned", "s": "signed", "bv": "bitvector"}[p["to"]]
            else:
                s += f"[{self.expr(p['e'])}]"
        return s

    def cond(self, c):
        if c["k"] == "true":
            return "True"
        if c["k"] == "false":
            return "False"
        return self.expr(c)

    def stmts(self, ss, ind, out):
        pad = "    " * ind
        if not ss:
            out.append(pad + "pass")
        for s in ss:
            k = s["k"]
            if k == "assign":
                t, e = self.target(s["t"]), self.expr(s["e"])
                if s.get("form", "op") == "op":
                    op = {"next": "<<=", "value": "@=", "push": "^="}[s["mode"]]
                    out.append(f"{pad}{t} {op} {e}")
                else:
                    out.append(f"{pad}{t}.{s['mode']} = {e}")
            elif k == "waitfor":
                arg = self.expr(s["n"]) + (", allow_zero=True" if s["allow_zero"] else "")
                out.append(f"{pad}await {'std' if s['via'] == 'std' else 'waiter'}.wait_for({arg})")
            elif k == "match":
                out.append(f"{pad}match {self.expr(s['e'])}:")
                for c in s["cases"]:
                    out.append(f"{pad}    case {self.expr(c['v'])}:")
                    self.stmts(c["body"], ind + 2, out)
                if s["hasdefault"]:
                    out.append(f"{pad}    case _:")
                    self.stmts(s["default"], ind + 2, out)
            elif k == "forchain":
                op = {"next": "<<=", "value": "@=", "push": "^=", "bind": "="}[s["mode"]]
                cs = ", ".join(self.cond(c) for c in s["conds"])
                vs = ", ".join(self.expr(v) for v in s["vals"])
                out.append(f"{pad}for c_, v_ in zip([{cs}], [{vs}]):")
                out.append(f"{pad}    if c_:")
                out.append(f"{pad}        {self.target(s['t'])} {op} {self.expr(s['tmpl'])}")
                out.append(f"{pad}        break")
                if s["haselse"]:
                    out.append(f"{pad}else:")
                    out.append(f"{pad}    {self.target(s['t'])} {op} {self.expr(s['elseval'])}")
            elif k == "local":
                extra = ", delayed_init=True" if s["delayed"] else ""
                out.append(f'{pad}{s["n"]} = Signal[{ty_py(s["ty"])}]({self.expr(s["init"])}, name="{s["n"]}"{extra})')
            elif k == "comment":
                out.append(f'{pad}std.comment("{s["text"]}")')
            elif k == "bind":
                out.append(f"{pad}{s['n']} = {self.expr(s['e'])}")
            elif k == "always":
                out.append(f"{pad}{s['n']} = cohdl.always({self.expr(s['e'])})")
            elif k == "alwaysblock":
                out.append(f"{pad}with cohdl.always:")
                self.stmts(s["body"], ind + 1, out)
            elif k == "assume":
                out.append(f"{pad}pass  # assume {self.expr(s['c'])}")
            elif k == "if":
                out.append(f"{pad}if {self.cond(s['c'])}:")
                self.stmts(s["th"], ind + 1, out)
                if s["el"]:
                    out.append(f"{pad}else:")
                    self.stmts(s["el"], ind + 1, out)
            elif k == "await":
                c = s["c"]
                if c["k"] == "true":
                    out.append(f"{pad}await cohdl.true")
                elif c["k"] == "false":
                    out.append(f"{pad}await cohdl.false")
                elif c["k"] == "ref" and (c["n"] in self.portnames or c["n"] in {o["n"] for o in self.ent["objs"]}
                                          or c["n"] in {p for f in self.ent.get("funcs", []) for p in f["params"]}):
                    out.append(f"{pad}await {self.expr(c)}")
                else:
                    out.append(f"{pad}await cohdl.expr({self.expr(c)})")
            elif k == "while":
                out.append(f"{pad}while {self.cond(s['c'])}:")
                self.stmts(s["body"], ind + 1, out)
            elif k == "ucall":
                call_ = f"{'await ' if s['aw'] else ''}{s['f']}({', '.join(self.expr(a) for a in s['args'])})"
                out.append(f"{pad}{s['ret']} = {call_}" if s["ret"] else pad + call_)
            elif k == "return":
                out.append(f"{pad}return {self.expr(s['e'])}" if s["has"] else pad + "return")
            elif k == "break":
                out.append(pad + "break")
            elif k == "continue":
                out.append(pad + "continue")
            else:
                raise ValueError(k)

    def entity(self):
        ent = self.ent
        out = [f"class {ent['name']}(cohdl.Entity):"]
        for p in ent["ports"]:
            args = [ty_py(p["ty"])]
            if p["dir"] == "out" and p["hasdefault"]:
                args.append(f"default={default_py(p['ty'], p['default'])}")
            if p["noreset"]:
                args.append("noreset=True")
            out.append(f"    {p['n']} = Port.{'input' if p['dir'] == 'in' else 'output'}({', '.join(args)})")
        out.append("")
        out.append("    def architecture(self):")
        for o in ent["objs"]:
            if o.get("local"):
                continue
            q = "Signal" if o["q"] == "signal" else "Variable"
            args = []
            if o["hasdefault"]:
                args.append(default_py(o["ty"], o["default"]))
            args.append(f'name="{o["n"]}"')
            if o["noreset"]:
                args.append("noreset=True")
            out.append(f"        {o['n']} = {q}[{ty_py(o['ty'])}]({', '.join(args)})")
        if "waiter" in json.dumps(ent["ctxs"]):
            out.append(f"        waiter = std.Waiter({ent.get('waiter_max', 7)})")
        for f in ent.get("funcs", []):
            out.append("")
            out.append(f"        {'async ' if f['async'] else ''}def {f['name']}({', '.join(f['params'])}):")
            nl = sorted(self.augmented(f["body"]) - set(f["params"]))
            if nl:
                out.append("            nonlocal " + ", ".join(nl))
            self.stmts(f["body"], 3, out)
        for c in ent["ctxs"]:
            out.append("")
            if c["kind"] == "seq":
                if c.get("edge", "rising") == "rising":
                    a = [f"std.Clock(self.{c['clk']})"]
                else:
                    a = [f"std.Clock(self.{c['clk']}, active_edge=std.Clock.Edge.{c['edge'].upper()})"]
                r = c["reset"]
                if r["k"] != "none":
                    extra = ""
                    if r["active_low"]:
                        extra += ", active_low=True"
                    if r["async"]:
                        extra += ", is_async=True"
                    a.append(f"std.Reset(self.{r['port']}{extra})")
                if c.get("step", {"k": "none"})["k"] != "none":
                    a.append(f"step_cond=lambda: {self.expr(c['step'])}")
                call_args = ""
                if c.get("onreset"):
                    out.append(f"        def {c['name']}_on_reset():")
                    nl = sorted(self.augmented(c["onreset"]))
                    if nl:
                        out.append("            nonlocal " + ", ".join(nl))
                    self.stmts(c["onreset"], 3, out)
                    out.append("")
                    if c.get("onreset_form", "ctor") == "ctor":
                        a.append(f"on_reset={c['name']}_on_reset")
                    else:
                        call_args = f"(on_reset={c['name']}_on_reset)"
                out.append(f"        @std.sequential({', '.join(a)}){call_args}")
                out.append(f"        {'async ' if c['coroutine'] else ''}def {c['name']}():")
            else:
                out.append("        @std.concurrent")
                out.append(f"        def {c['name']}():")
            nl = sorted(self.augmented(c["body"]))
            if nl:
                out.append("            nonlocal " + ", ".join(nl))
            self.stmts(c["body"], 3, out)
        return "\n".join(out) + "\n"

    def augmented(self, ss, acc=None):
        """local objects that are the target of an augmented assignment (python needs `nonlocal`)"""
        acc = set() if acc is None else acc
        locals_ = {o["n"] for o in self.ent["objs"] if o.get("local")}
        for s in ss:
            if s["k"] == "assign" and s.get("form", "op") == "op" and not s["t"]["path"] and s["t"]["obj"] not in self.portnames \
                    and s["t"]["obj"] not in locals_:
                acc.add(s["t"]["obj"])
            elif s["k"] == "if":
                self.augmented(s["th"], acc)
                self.augmented(s["el"], acc)
            elif s["k"] == "while":
                self.augmented(s["body"], acc)
            elif s["k"] == "alwaysblock":
                self.augmented(s["body"], acc)
            elif s["k"] == "match":
                for c in s["cases"]:
                    self.augmented(c["body"], acc)
                self.augmented(s["default"], acc)
            elif s["k"] == "forchain" and s["mode"] != "bind" and not s["t"]["path"] and s["t"]["obj"] not in self.portnames and s["t"]["obj"] not in locals_:
                acc.add(s["t"]["obj"])
        return acc


HEADER = """from __future__ import annotations
import cohdl
from cohdl import Bit, BitVector, Unsigned, Signed, Port, Signal, Variable, Null, Full, Array
from cohdl import std
from cohdl import enum as _cenum


class En2(_cenum.Enum):
    e0 = _cenum.auto()
    e1 = _cenum.auto()


class En3(_cenum.Enum):
    e0 = _cenum.auto()
    e1 = _cenum.auto()
    e2 = _cenum.auto()


class En4(_cenum.Enum):
    e0 = _cenum.auto()
    e1 = _cenum.auto()
    e2 = _cenum.auto()
    e3 = _cenum.auto()

"""


def to_python(ent):
    return Printer(ent).entity()


def module_source(ents):
    return HEADER + "\n\n".join(to_python(e) for e in ents)


def input_space(ent, clk="clk"):
    """description of the data inputs for the model checker: name, kind, width"""
    return [{"n": p["n"], "k": p["ty"]["k"], "w": p["ty"]["w"]} for p in ent["ports"]
            if p["dir"] == "in" and p["n"] != clk]


if __name__ == "__main__":
    import sys
    print(module_source(json.load(open(sys.argv[1]))))
