"""C19: fixed-point arithmetic is exact and resize follows the selected styles."""
import os, json, time, subprocess, collections
import vlib

OPS = ("add", "sub", "mul", "resize", "conv", "eq")


def describe(c):
    op, sg, l1, r1, n1, l2, r2, n2, p1, p2, lo, ro, no = c
    k = "SFixed" if sg else "UFixed"
    if op == "resize":
        return f"{k}[{l1}:{r1}](raw {n1}).resize({l2},{r2},{'ROUND' if p1 else 'TRUNCATE'},{'SATURATE' if p2 else 'WRAP'}) -> [{lo}:{ro}] raw {no}"
    return f"{k}[{l1}:{r1}](raw {n1}) {op} {k}[{l2}:{r2}](raw {n2}) -> [{lo}:{ro}] raw {no}"


def classify(c):
    """names the circumstances of a failing resize (for the canonical violation key only; the verdict is TLC's)"""
    op, sg, l1, r1, n1, l2, r2, n2, rnd, sat, lo, ro, no = c
    if no == -99999:
        cut, w = r2 - r1, l1 - r1 + 1
        where = "target-above-source" if r2 > l1 else "target-below-source" if l2 < r1 else "overlap"
        return f"raises:{where}:{'all-bits-cut' if cut >= w else 'some-bits-kept'}:{'round' if rnd else 'truncate'}"
    w2 = l2 - r2 + 1
    mn, mx = (-(1 << (w2 - 1)), (1 << (w2 - 1)) - 1) if sg else (0, (1 << w2) - 1)
    if r2 <= r1:
        tr = sh = n1 * (1 << (r1 - r2))
    else:
        d = 1 << (r2 - r1)
        tr = n1 // d
        rem = n1 - tr * d
        sh = tr if (not rnd or 2 * rem < d) else tr + 1 if 2 * rem > d else (tr if tr % 2 == 0 else tr + 1)
    rng = "rounding-carries-out" if (mn <= tr <= mx and not mn <= sh <= mx) else "in-range" if mn <= sh <= mx else \
        "above-range" if sh > mx else "below-range"
    return (f"{'round' if rnd else 'truncate'}-{'saturate' if sat else 'wrap'}:{rng}:{'negative' if n1 < 0 else 'non-negative'}:"
            f"{'disjoint' if l2 < r1 or r2 > l1 else 'overlap'}")


def fmt_py(sg, l, r):
    return f"std.{'S' if sg else 'U'}Fixed[{l}:{r}]"


def hw_part(tier, cases, scratch, V):
    """wrapper designs for + - * and resize on run-time values; result formats are taken from the Python-level observations
    (they are judged there), the raw results of the emitted logic are judged by the same predicate (Fixed.CaseOk)"""
    maxw = 3
    fmts = {}
    for c in cases:
        op, sg, l1, r1, n1, l2, r2, n2, p1, p2, lo, ro, no = c
        if op not in ("add", "sub", "mul", "resize") or l1 - r1 + 1 > maxw or l2 - r2 + 1 > maxw:
            continue
        key = (op, sg, l1, r1, l2, r2, p1, p2)
        if no == -99999:
            fmts.setdefault(key, None)        # raises at compile time for (at least) this value: the resize is recorded there
        elif fmts.get(key) is None:
            fmts[key] = (lo, ro)
    keys = sorted(k for k, v in fmts.items() if v is not None)
    if tier == "quick":
        keys = [k for i, k in enumerate(keys) if k[0] == "resize" and i % 3 == 0 or k[0] != "resize" and i % 2 == 0]
    src = ["from __future__ import annotations", "import cohdl", "from cohdl import Bit, BitVector, Unsigned, Signed, Port", "from cohdl import std", ""]
    ents = []
    for i, k in enumerate(keys):
        op, sg, l1, r1, l2, r2, p1, p2 = k
        lo, ro = fmts[k]
        name = f"E19H_{i:04d}"
        src += [f"class {name}(cohdl.Entity):", f"    a = Port.input(BitVector[{l1 - r1 + 1}])"]
        if op != "resize":
            src.append(f"    b = Port.input(BitVector[{l2 - r2 + 1}])")
        src += [f"    o = Port.output(BitVector[{lo - ro + 1}])", "", "    def architecture(self):", "        @std.concurrent", "        def logic():",
                f"            x = std.from_bits[{fmt_py(sg, l1, r1)}](self.a)"]
        if op == "resize":
            src.append(f"            self.o <<= std.to_bits(x.resize({l2}, {r2}, round_style=std.FixedRoundStyle.{'ROUND' if p1 else 'TRUNCATE'}, "
                       f"overflow_style=std.FixedOverflowStyle.{'SATURATE' if p2 else 'WRAP'}))")
        else:
            src.append(f"            y = std.from_bits[{fmt_py(sg, l2, r2)}](self.b)")
            src.append(f"            self.o <<= std.to_bits(x {'+' if op == 'add' else '-' if op == 'sub' else '*'} y)")
        src.append("")
        ents.append((name, k))
    obs = vlib.compile_modules([{"name": "gc19hw", "source": "\n".join(src) + "\n", "entities": [n for n, _ in ents]}], scratch)
    recs, rejected, key_of = [], collections.Counter(), {}
    for name, k in ents:
        op, sg, l1, r1, l2, r2, p1, p2 = k
        lo, ro = fmts[k]
        ob = obs.get(name)
        key_of[name] = k
        if ob is None or ob["outcome"] == "crash":
            V.machinery_error(f"hw wrapper {name} {k}: {ob['error']['msg'] if ob else 'no observation'}")
            continue
        if ob["outcome"] != "accepted":
            # an operation that cannot be compiled is a rejection, not a wrong value; a resize that is rejected for run-time values
            # is reported like one that raises on constants (C19: "resize to any target format returns ...")
            rejected[op] += 1
            if op == "resize":
                where = "target-above-source" if r2 > l1 else "target-below-source" if l2 < r1 else "overlap"
                V.violation(f"hw-resize-rejected:{'S' if sg else 'U'}Fixed:{where}:{'round' if p1 else 'truncate'}-{'saturate' if p2 else 'wrap'}|"
                            f"[{l1}:{r1}]->[{l2}:{r2}] {ob['error']['cls']}: {ob['error']['msg'][:80]}", {"clause": "ResizeTotal", "key": k, "error": ob["error"]})
            else:
                V.violation(f"hw-rejected:{op}|{k} {ob['error']['cls']}: {ob['error']['msg'][:100]}", {"clause": "Total", "key": k, "error": ob["error"]})
            continue
        ob = vlib.read_obs(ob)
        if ob["reader"] != "ok":
            V.machinery_error(f"reader: {name} {k}: {ob.get('reader_msg')}")
            continue
        recs.append({"id": name, "ast": ob["ast"], "top": name.lower(), "op": op, "sg": sg, "l1": l1, "r1": r1, "l2": l2, "r2": r2,
                     "p1": p1, "p2": p2, "lo": lo, "ro": ro})
    res = vlib.run_tlc_shards("MC_FixedHw.tla", "MC_FixedHw.cfg", [{"designs": s} for s in vlib.shard(recs, vlib.NCPU)], scratch,
                              timeout=1500 if tier == "quick" else 6000) if recs else []
    evals = 0
    for r in res:
        pr = r["parsed"]
        if r["timeout"] or pr["errors"] or "evaluations" not in pr["stat"]:
            V.machinery_error("MC_FixedHw: " + " / ".join(pr["errors"][:3]) + r["out"][-600:])
            continue
        evals += pr["stat"]["evaluations"][0]
        for name, n1, n2, verdict, got in pr["viol"]:
            op, sg, l1, r1, l2, r2, p1, p2 = key_of[name]
            lo, ro = fmts[key_of[name]]
            c = [op, sg, l1, r1, n1, l2, r2, n2, p1, p2, lo, ro, got]
            V.violation(f"hw-{op}:{'S' if sg else 'U'}Fixed:{classify(c) if op == 'resize' and verdict == 'value' else verdict}|{describe(c)}",
                        {"clause": verdict, "case": c, "description": describe(c), "vhdl": obs[name]["vhdl"]})
    return {"hw_wrappers": len(recs), "hw_evaluations": evals, "hw_rejected": dict(rejected)}


def run(tier):
    t0 = time.time()
    V = vlib.Verdict("C19")
    bound = 2 if tier == "quick" else 3
    with vlib.Scratch() as scratch:
        out = os.path.join(scratch, "c19.json")
        env = dict(os.environ, PYTHONPATH=vlib.REPO, PYTHONHASHSEED="0")
        p = subprocess.run([vlib.VENV_PY, os.path.join(vlib.VERIF, "harness", "pyobs_c19.py"), str(bound), out],
                           env=env, capture_output=True, text=True, cwd=scratch)
        if p.returncode != 0:
            V.machinery_error("pyobs_c19 failed: " + p.stderr[-1500:])
            cases = []
        else:
            cases = json.load(open(out))["cases"]
        raised = [c for c in cases if c[-1] == -99999]
        judged = [c for c in cases if c[-1] != -99999]
        # an operation that raises is a rejection, never a silent wrong value; equality between different formats is
        # rejected by design (assert type(other) is type(self)); a resize that raises is reported (C19: "resize to any
        # target format returns ...")
        for c in raised:
            if c[0] == "resize":
                cut = c[6] - c[3]
                V.violation(f"resize:{'S' if c[1] else 'U'}Fixed:{classify(c)}|{describe(c)}",
                            {"clause": "ResizeTotal", "case": c, "description": describe(c)})
        shards = vlib.shard(judged, vlib.NCPU)
        res = vlib.run_tlc_shards("MC_Fixed.tla", "MC_Fixed.cfg", [{"cases": s} for s in shards], scratch, timeout=2400)
        checked = 0
        for sh, r in zip(shards, res):
            pr = r["parsed"]
            if r["timeout"] or pr["errors"] or "cases" not in pr["stat"]:
                V.machinery_error("MC_Fixed: " + " / ".join(pr["errors"][:3]) + r["out"][-600:])
                continue
            checked += pr["stat"]["cases"][0]
            for i, op in pr["viol"]:
                c = sh[i - 1]
                V.violation(f"{op}:{'S' if c[1] else 'U'}Fixed:{classify(c) if op == 'resize' else ''}|{describe(c)}",
                            {"clause": op, "case": c, "description": describe(c)})
        # ---- emitted logic: the same operations on run-time values (wrapper designs, every raw operand value)
        hw = hw_part(tier, cases, scratch, V)
    shapes = {(c[0], c[1], c[2], c[3], c[5], c[6], c[8], c[9]) for c in judged}
    cov = {"evaluations": checked, "distinct_nontrivial": len(shapes),
           "rule": "formats [l:r] with |l|,|r| <= %d and width <= 5 (source and target) x round/overflow styles x ALL raw values: "
                   "+ - * (exactness of the represented value in the observed result format), resize, construction from another "
                   "format, equality; validated by TLC against spec/Fixed.tla (integers scaled to a common power of two); "
                   "distinct_nontrivial = distinct (operation, formats, styles)" % bound,
           "samples": [describe(c) for c in judged[:: max(1, len(judged) // 5)][:5]],
           "raised": dict(collections.Counter(c[0] for c in raised)), "exhaustive": True}
    cov.update(hw)
    cov["evaluations"] += hw.get("hw_evaluations", 0)
    rc = V.finish()
    vlib.write_evidence("C19", tier, "model_checking", cov, time.time() - t0, len(V.new),
                        ["spec/Fixed.tla transcribes the C19 statement", "harness/pyobs_c19.py reads format and raw bits of each result", "TLC"])
    return rc
