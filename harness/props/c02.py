"""C02: operators and expressions compute their documented value at run time."""
import random
import vlib, product, gen_expr


def build(tier, rng):
    ents = []
    for i, (tag, in_ports, exprs) in enumerate(gen_expr.all_families(tier, rng)):
        e = gen_expr.mk_entity(f"E02_{i:04d}", in_ports, exprs)
        e["family"] = tag
        ents.append(e)
    return ents


def run(tier):
    rng = random.Random(vlib.seed())
    ents = build(tier, rng)
    with vlib.Scratch() as scratch:
        return product.run("C02", tier, ents, lambda e: 1, scratch, timeout=900 if tier == "quick" else 3000,
                           rule="one design per (operator family, operand kinds, widths); every operand valuation is applied "
                                "(depth-1 exhaustive input space), outputs compared in a concurrent and in a clocked context; "
                                "non-trivial = outputs take >= 2 distinct valuations over the explored inputs")
