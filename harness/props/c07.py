"""C07: one driver per signal: conflicts rejected, accepted designs conflict-free."""
import itertools, random
import vlib, verdict
from adl import *  # noqa

U2, BV4 = T("u", 2), T("bv", 4)


def tgt(o, form):
    if form == "whole":
        return target(o), {"u": ref("d"), "bv": bin_("concat", ref("d"), ref("d"))}
    if form == "slice":
        return target(o, [p_slice(1, 0)]), {"u": view(ref("d"), "bv"), "bv": view(ref("d"), "bv")}
    return target(o, [p_idx(1)]), {"u": ref("a"), "bv": ref("a")}


def placements(tier):
    """objects x writer placements x forms"""
    ents = []
    k = 0
    objkinds = [("signal", U2), ("signal", BV4), ("port_out", U2), ("port_out", BV4), ("port_in", U2), ("variable", U2)]
    ctxs = ["seqA", "seqB", "conc"]
    forms = ["whole", "slice", "elem"]
    for (ok, ty) in objkinds:
        for w1, w2 in itertools.product(ctxs + [None], ctxs + [None]):
            if w1 is None and w2 is None:
                continue
            for f1, f2 in itertools.product(forms, forms):
                if tier == "quick" and (f1, f2) not in (("whole", "whole"), ("slice", "elem"), ("slice", "slice"), ("whole", "elem")):
                    continue
                if w1 is None and f1 != "whole" or w2 is None and f2 != "whole":
                    continue
                if w1 == "conc" and w2 == "conc":
                    # two assignments to overlapping parts of one signal inside ONE concurrent context are emitted as two
                    # concurrent statements; C07 counts the context as one driver and C03 does not define an order for
                    # concurrent contexts, so that shape is left out (noted in DESIGN.md)
                    continue
                ports = [port("clk", "in", BIT), port("a", "in", BIT), port("d", "in", U2), port("o", "out", BV4, default=0)]
                objs = []
                name = "x"
                if ok == "signal":
                    objs.append(obj("x", "signal", ty, default=0))
                elif ok == "variable":
                    objs.append(obj("x", "variable", ty, default=0))
                elif ok == "port_out":
                    ports.append(port("x", "out", ty, default=0))
                else:
                    ports.append(port("x", "in", ty))
                bodies = {"seqA": [], "seqB": [], "conc": []}
                for w, f in ((w1, f1), (w2, f2)):
                    if w is None:
                        continue
                    t, src = tgt("x", f)
                    mode = "value" if ok == "variable" else "next"
                    bodies[w].append(assign(mode, t, src[ty["k"]]))
                # a reader of x in a concurrent context (signals / ports) so that the object is used
                if ok in ("signal", "port_in"):
                    bodies["conc"].append(assign("next", target("o", [p_slice(1, 0)]), view(ref("x"), "bv") if ty["w"] == 2 else slice_(ref("x"), 1, 0)))
                cl = []
                if bodies["seqA"]:
                    cl.append(seq_ctx("seq_a", bodies["seqA"]))
                if bodies["seqB"]:
                    cl.append(seq_ctx("seq_b", bodies["seqB"]))
                if bodies["conc"]:
                    cl.append(conc_ctx("conc_c", bodies["conc"]))
                e = entity(f"E07_{k:04d}", ports, objs, cl)
                e["family"] = f"{ok}:{ty['k']}{ty['w']}:{w1}/{f1}+{w2}/{f2}"
                ents.append(e)
                k += 1
    return ents


HEADER_SUB = '''
class Sub{S}(cohdl.Entity):
    i = Port.input(Bit)
    q = Port.output(Bit)
    qn = Port.output(Bit)

    def architecture(self):
        @std.concurrent
        def logic():
            self.q <<= self.i
            self.qn <<= ~self.i
'''


def instance_cases():
    """writers that are entity-instance outputs (hand-written source; expected verdict from the C07 statement)"""
    out = []
    P = [port("clk", "in", BIT), port("a", "in", BIT), port("o", "out", BIT), port("p", "out", BIT)]

    def mk(i, tag, body, expect, flat=None):
        S = f"_{i}"
        src = HEADER_SUB.replace("{S}", S) + f'''

class E07I_{i:03d}(cohdl.Entity):
    clk = Port.input(Bit)
    a = Port.input(Bit)
    o = Port.output(Bit)
    p = Port.output(Bit)

    def architecture(self):
        s = Signal[Bit](name="s")
''' + body.replace("{S}", S)
        e = entity(f"E07I_{i:03d}", P, [], [])
        e["source_override"] = src
        e["family"] = "inst:" + tag
        e["expected_verdict"] = expect
        e["no_product"] = True
        return e

    rej = "reject:object driven from more than one context or instance output"
    out.append(mk(0, "one-instance-two-signals", "        Sub{S}(i=self.a, q=self.o, qn=self.p)\n", ""))
    out.append(mk(1, "two-instances-same-signal", "        Sub{S}(i=self.a, q=self.o, qn=s)\n        Sub{S}(i=self.a, q=self.o, qn=self.p)\n", rej))
    out.append(mk(2, "instance-and-concurrent", "        Sub{S}(i=self.a, q=self.o, qn=self.p)\n        std.concurrent_assign(self.o, self.a)\n", rej))
    out.append(mk(3, "instance-and-sequential", "        Sub{S}(i=self.a, q=self.o, qn=self.p)\n        @std.sequential(std.Clock(self.clk))\n        def proc():\n            self.p <<= self.a\n", rej))
    out.append(mk(4, "one-instance-two-outputs-same-signal", "        Sub{S}(i=self.a, q=self.o, qn=self.o)\n        std.concurrent_assign(self.p, self.a)\n", rej))
    out.append(mk(5, "instance-output-to-input-port", "        Sub{S}(i=self.o, q=self.a, qn=self.p)\n", "reject:input port written"))
    out.append(mk(6, "same-line-contexts", "        std.concurrent_assign(self.o, self.a)\n        std.concurrent_assign(self.o, self.clk)\n        std.concurrent_assign(self.p, self.a)\n", rej))
    out.append(mk(8, "helper-defined-contexts", "        def helper(src):\n            @std.sequential(std.Clock(self.clk))\n            def drive():\n                self.o <<= src\n        helper(self.a)\n        helper(s)\n        std.concurrent_assign(self.p, self.a)\n        std.concurrent_assign(s, self.a)\n", rej))
    out.append(mk(9, "loop-defined-contexts", "        for src in (self.a, self.clk):\n            @std.concurrent\n            def drive():\n                self.o <<= src\n        std.concurrent_assign(self.p, self.a)\n", rej))
    out.append(mk(7, "always-and-body", "        @std.sequential(std.Clock(self.clk))\n        def proc():\n            with cohdl.always:\n                self.o <<= self.a\n            self.o <<= ~self.a\n            self.p <<= self.a\n", rej))
    return out


def run(tier):
    ents = placements(tier) + instance_cases()
    return verdict.run("C07", tier, ents,
                       rule="all placements of up to two writers of one object over {sequential context A, sequential context B, concurrent "
                            "context} x {whole, slice, element} x object kind {signal, output port, input port, variable} (+ a concurrent "
                            "reader), and hand-written cases with entity-instance outputs / same-line contexts / always blocks; the "
                            "compiler's verdict is compared with CoAccept.DriversAccept (TLC); every emitted architecture is checked with "
                            "VhdlStatic.MultipleDrivers / VariablesEscape (TLC) and model-checked against CoSem")
