"""C11: compilation is a pure function of the design, independent of history."""
import os, json, time, re, subprocess, random
import concurrent.futures as cf
import vlib


def tlc_histories(scratch, maxlen):
    md = os.path.join(scratch, "cs")
    os.makedirs(md, exist_ok=True)
    mod = open(os.path.join(vlib.SPEC, "mc", "MC_CompilerState.tla")).read().replace("MCMaxLen == 3", f"MCMaxLen == {maxlen}")
    open(os.path.join(md, "MC_CompilerState.tla"), "w").write(mod)
    open(os.path.join(md, "MC_CompilerState.cfg"), "w").write(open(os.path.join(vlib.SPEC, "mc", "MC_CompilerState.cfg")).read())
    cmd = ["java", "-XX:+UseParallelGC", "-Xmx4g", f"-DTLA-Library={vlib.SPEC}:{os.path.join(vlib.SPEC, 'mc')}", "-cp", vlib.TLA_CP,
           "tlc2.TLC", "-workers", "1", "-metadir", os.path.join(md, "meta"), "-noGenerateSpecTE",
           "-config", os.path.join(md, "MC_CompilerState.cfg"), os.path.join(md, "MC_CompilerState.tla")]
    p = subprocess.run(cmd, capture_output=True, text=True, timeout=1800, cwd=md)
    out = p.stdout + p.stderr
    hists = [json.loads(json.loads('"' + m.group(1) + '"')) for m in re.finditer(r'<<"CASE", "((?:[^"\\]|\\.)*)">>', out)]
    st = re.search(r"(\d+) states generated, (\d+) distinct states found", out)
    return hists, (int(st.group(1)), int(st.group(2))) if st else (0, 0), "No error has been found" in out, out


def replay(args):
    i, hists, ref, seed, scratch = args
    jf, of = os.path.join(scratch, f"c11_{seed}_{i}.json"), os.path.join(scratch, f"c11_{seed}_{i}.out.json")
    json.dump({"histories": hists, "reference": ref}, open(jf, "w"))
    env = dict(os.environ, PYTHONPATH=vlib.REPO, PYTHONHASHSEED=str(seed))
    p = subprocess.run([vlib.VENV_PY, os.path.join(vlib.VERIF, "harness", "pyobs_c11.py"), jf, of], env=env, capture_output=True, text=True, cwd=scratch)
    if p.returncode != 0:
        return {"error": p.stderr[-1500:]}
    return json.load(open(of))


def canon(f):
    """canonical key of a failing history: the design whose outcome changed, and the earlier designs of the history
    that left compiler state behind (the culprits), or the whole prefix when none did"""
    hist = f["history"][: f["step"] + 1]
    culprits = sorted({nm for nm, _ in f.get("leaks", [])}) or sorted(set(hist[:-1]))
    return f"{f['clause']}:{f['design']}:after:{'+'.join(culprits) or 'nothing'}"


def run(tier):
    t0 = time.time()
    V = vlib.Verdict("C11")
    rng = random.Random(vlib.seed() + 11)
    with vlib.Scratch() as scratch:
        hists, (gen, dist), ok, out = tlc_histories(scratch, 2 if tier == "quick" else 3)
        if not ok:
            V.machinery_error("CompilerState spec run failed: " + out[-600:])
        # longer histories: seeded random walks over the same alphabet
        alphabet = sorted({h for hh in hists for h in hh})
        extra = [[rng.choice(alphabet) for _ in range(rng.randint(3, 6))] for _ in range(150 if tier == "quick" else 2000)]
        allh = hists + extra
        # reference outcomes: every design alone in a fresh interpreter under hash seed 0
        r0 = replay((0, [], None, 0, scratch))
        if "error" in r0:
            V.machinery_error("reference run: " + r0["error"])
            ref = None
        else:
            ref = r0["reference"]
        replayed = 0
        leak_diag = {}
        seeds = (0, 1, 7) if tier == "quick" else (0, 1, 2, 7, 12345)
        if ref:
            jobs = []
            for seed in seeds:
                hs = allh if seed == 0 else rng.sample(allh, min(len(allh), 120 if tier == "quick" else 1000))
                jobs += [(i, s, ref, seed, scratch) for i, s in enumerate(vlib.shard(hs, 6 if tier == "quick" or seed != 0 else 16))]
            with cf.ThreadPoolExecutor(vlib.NCPU) as ex:
                for (i, s, _, seed, _), r in zip(jobs, ex.map(replay, jobs)):
                    if "error" in r:
                        V.machinery_error("replay driver: " + r["error"])
                        continue
                    replayed += r["replayed"]
                    for nm, d in r.get("leaks", {}).items():
                        leak_diag.setdefault(nm, set()).update(d)
                    for f in r["failures"]:
                        V.violation(f"{canon(f)}|seed={seed} history={f['history']} {f['detail'][:200]}", dict(f, hashseed=seed))
    cov = {"states": dist, "transitions": gen, "traces_validated_against_impl": replayed, "evaluations": replayed,
           "distinct_nontrivial": len({tuple(h) for h in allh}), "hash_seeds": list(seeds),
           "samples": allh[:: max(1, len(allh) // 4)][:4],
           "scratch_state_left_behind_without_visible_effect": {k: sorted(v) for k, v in leak_diag.items()}, "alphabet": alphabet, "exhaustive_length": 2 if tier == "quick" else 3,
           "rule": "TLC enumerates every compile history up to the length bound over an alphabet of 9 accepted designs (helper function with returns in branches / match / on_reset, awaited sub-coroutine with loop and return, combinational, "
                   "coroutine, prefix-using, hierarchical, std.Fifo user, compile with additional_reserved_names, match) and 8 designs "
                   "rejected at different stages; plus seeded random histories of length 3-6; every history is replayed in one freshly "
                   "forked interpreter, under several PYTHONHASHSEED values; after every step the projected scratch state must be at "
                   "rest and the outcome must be byte-identical to the design compiled alone in a fresh interpreter"}
    rc = V.finish()
    vlib.write_evidence("C11", tier, "model_checking", cov, time.time() - t0, len(V.new),
                        ["spec/CompilerState.tla transcribes the C11 statement", "the scratch-state projection of harness/pyobs_c11.py (DESIGN.md A.7)",
                         "the design alphabet in harness/c11_designs.py", "TLC"])
    return rc
