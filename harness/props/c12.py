"""C12: instantiating an entity is equivalent to inlining it."""
import json, time, random
import vlib, product
from adl import *  # noqa

U2, U4 = T("u", 2), T("u", 4)

LEAVES = '''
class Add{S}(cohdl.Entity):
    a = Port.input(Unsigned[2])
    b = Port.input(Unsigned[2])
    s = Port.output(Unsigned[2])

    def architecture(self):
        @std.concurrent
        def logic():
            self.s <<= self.a + self.b


class Reg{S}(cohdl.Entity):
    clk = Port.input(Bit)
    d = Port.input(Unsigned[2])
    q = Port.output(Unsigned[2], default=0)

    def architecture(self):
        @std.sequential(std.Clock(self.clk))
        def proc():
            self.q <<= self.d


class Cmp{S}(cohdl.Entity):
    a = Port.input(Unsigned[2])
    b = Port.input(Unsigned[2])
    gt = Port.output(Bit)
    le = Port.output(Bit)

    def architecture(self):
        @std.concurrent
        def logic():
            self.gt <<= self.a > self.b
            self.le <<= self.a <= self.b


class Mid{S}(cohdl.Entity):
    clk = Port.input(Bit)
    p = Port.input(Unsigned[2])
    q = Port.input(Unsigned[2])
    r = Port.output(Unsigned[2])

    def architecture(self):
        t = Signal[Unsigned[2]](name="t")
        Add{S}(a=self.p, b=self.q, s=t)
        Reg{S}(clk=self.clk, d=t, q=self.r)
'''
IFACE = {
    "add": [["a", "in", "unsigned", 2], ["b", "in", "unsigned", 2], ["s", "out", "unsigned", 2]],
    "reg": [["clk", "in", "std_logic", -1], ["d", "in", "unsigned", 2], ["q", "out", "unsigned", 2]],
    "cmp": [["a", "in", "unsigned", 2], ["b", "in", "unsigned", 2], ["gt", "out", "std_logic", -1], ["le", "out", "std_logic", -1]],
    "mid": [["clk", "in", "std_logic", -1], ["p", "in", "unsigned", 2], ["q", "in", "unsigned", 2], ["r", "out", "unsigned", 2]],
}

X, Y = ref("x"), ref("y")


def tops():
    """(tag, top class body, top ports (ADL), flat objects, flat contexts, used leaf names)"""
    P = lambda n, d, t, **k: port(n, d, t, **k)
    base = [P("clk", "in", BIT), P("x", "in", U2), P("y", "in", U2)]
    out = []
    out.append(("add_reg", '''
    o = Port.output(Unsigned[2])
    def architecture(self):
        t = Signal[Unsigned[2]](name="t")
        Add{S}(a=self.x, b=self.y, s=t)
        Reg{S}(clk=self.clk, d=t, q=self.o)
''', base + [P("o", "out", U2, default=0)], [obj("t", "signal", U2)],
                [conc_ctx("c1", [assign("next", "t", bin_("add", X, Y))]), seq_ctx("p1", [assign("next", "o", ref("t"))])], ["add", "reg"]))
    out.append(("same_template_twice", '''
    o1 = Port.output(Unsigned[2])
    o2 = Port.output(Unsigned[2])
    def architecture(self):
        t = Signal[Unsigned[2]](name="t")
        Add{S}(a=self.x, b=self.y, s=t)
        Add{S}(b=t, a=self.y, s=self.o2)
        std.concurrent_assign(self.o1, t)
''', base + [P("o1", "out", U2), P("o2", "out", U2)], [obj("t", "signal", U2)],
                [conc_ctx("c1", [assign("next", "t", bin_("add", X, Y)), assign("next", "o2", bin_("add", Y, ref("t"))),
                                 assign("next", "o1", ref("t"))])], ["add"]))
    out.append(("nested_twice", '''
    o = Port.output(Unsigned[2])
    def architecture(self):
        m = Signal[Unsigned[2]](name="m")
        Mid{S}(clk=self.clk, p=self.x, q=self.y, r=m)
        Mid{S}(clk=self.clk, p=m, q=self.x, r=self.o)
''', base + [P("o", "out", U2, default=0)], [obj("t1", "signal", U2), obj("t2", "signal", U2), obj("m", "signal", U2, default=0)],
                [conc_ctx("c1", [assign("next", "t1", bin_("add", X, Y)), assign("next", "t2", bin_("add", ref("m"), X))]),
                 seq_ctx("p1", [assign("next", "m", ref("t1"))]), seq_ctx("p2", [assign("next", "o", ref("t2"))])], ["add", "reg", "mid"]))
    out.append(("keywords_out_of_order", '''
    hi = Port.output(Bit)
    lo = Port.output(Bit)
    d = Port.output(Unsigned[2])
    def architecture(self):
        Cmp{S}(le=self.lo, b=self.y, gt=self.hi, a=self.x)
        Reg{S}(q=self.d, d=self.y, clk=self.clk)
''', base + [P("hi", "out", BIT), P("lo", "out", BIT), P("d", "out", U2, default=0)], [],
                [conc_ctx("c1", [assign("next", "hi", bin_("gt", X, Y)), assign("next", "lo", bin_("le", X, Y))]),
                 seq_ctx("p1", [assign("next", "d", Y)])], ["cmp", "reg"]))
    out.append(("slice_actuals", '''
    w = Port.input(Unsigned[4])
    o = Port.output(Unsigned[4])
    o2 = Port.output(Unsigned[2])
    def architecture(self):
        Add{S}(a=self.w[1:0].unsigned, b=self.w[3:2].unsigned, s=self.o[2:1].unsigned)
        Add{S}(a=self.x, b=self.w[2:1].unsigned, s=self.o2)
''', base + [P("w", "in", T("u", 4)), P("o", "out", T("u", 4)), P("o2", "out", U2)], [],
                [conc_ctx("c1", [assign("next", target("o", [p_slice(2, 1)]), bin_("add", view(slice_(ref("w"), 1, 0), "u"), view(slice_(ref("w"), 3, 2), "u"))),
                                 assign("next", "o2", bin_("add", X, view(slice_(ref("w"), 2, 1), "u")))])], ["add"]))
    out.append(("typed_view_actuals", '''
    w = Port.input(BitVector[4])
    o = Port.output(BitVector[4])
    o2 = Port.output(Unsigned[2])
    def architecture(self):
        Add{S}(a=self.w[1:0].unsigned, b=self.w[3:2].unsigned, s=self.o[2:1].unsigned)
        Add{S}(a=self.x, b=self.w[2:1].unsigned, s=self.o2)
''', base + [P("w", "in", T("bv", 4)), P("o", "out", T("bv", 4)), P("o2", "out", U2)], [],
                [conc_ctx("c1", [assign("next", target("o", [p_slice(2, 1)]), bin_("add", view(slice_(ref("w"), 1, 0), "u"), view(slice_(ref("w"), 3, 2), "u"))),
                                 assign("next", "o2", bin_("add", X, view(slice_(ref("w"), 2, 1), "u")))])], ["add"]))
    out.append(("parent_register_to_instance_input", '''
    rst = Port.input(Bit)
    o = Port.output(Unsigned[2])
    def architecture(self):
        cnt = Signal[Unsigned[2]](1, name="cnt")
        @std.sequential(std.Clock(self.clk), std.Reset(self.rst))
        def count():
            cnt.next = cnt + self.x
        Add{S}(a=cnt, b=self.y, s=self.o)
''', base + [P("rst", "in", BIT), P("o", "out", U2)], [obj("cnt", "signal", U2, default=1)],
                [seq_ctx("count", [assign("next", "cnt", bin_("add", ref("cnt"), X))], reset=reset("rst")),
                 conc_ctx("c1", [assign("next", "o", bin_("add", ref("cnt"), Y))])], ["add"]))
    out.append(("fanout_three", '''
    o = Port.output(Unsigned[2])
    g = Port.output(Bit)
    def architecture(self):
        a1 = Signal[Unsigned[2]](name="a1")
        a2 = Signal[Unsigned[2]](name="a2")
        l = Signal[Bit](name="l")
        Add{S}(a=self.x, b=self.y, s=a1)
        Reg{S}(clk=self.clk, d=a1, q=a2)
        Cmp{S}(a=a2, b=self.x, gt=self.g, le=l)
        Add{S}(a=a2, b=a1, s=self.o)
''', base + [P("o", "out", U2), P("g", "out", BIT)], [obj("a1", "signal", U2), obj("a2", "signal", U2, default=0)],
                [conc_ctx("c1", [assign("next", "a1", bin_("add", X, Y)), assign("next", "g", bin_("gt", ref("a2"), X)),
                                 assign("next", "o", bin_("add", ref("a2"), ref("a1")))]),
                 seq_ctx("p1", [assign("next", "a2", ref("a1"))])], ["add", "reg", "cmp"]))
    return out


# ---------------------------------------------------------------------------------------------------------------------
# random instantiation trees ("all instantiation trees (depth, fan-out, repeated templates, slice actuals) over generated
# leaf entities"): every template has the ports clk?, a, b : in Unsigned[2] and s : out Unsigned[2]; a composite template is
# a DAG of instances of lower templates; the flat reference is obtained by inlining every instance.
LEAF_KINDS = {
    #        sequential?, python expression,                      ADL expression
    "add": (False, "self.a + self.b", lambda a, b: bin_("add", a, b)),
    "sub": (False, "self.a - self.b", lambda a, b: bin_("sub", a, b)),
    "xor": (False, "self.a ^ self.b", lambda a, b: bin_("xor", a, b)),
    "min": (False, "self.a if self.a < self.b else self.b", lambda a, b: ifexp(bin_("lt", a, b), a, b)),
    "reg": (True, "self.a", lambda a, b: a),
    "acc": (True, "self.a + self.b", lambda a, b: bin_("add", a, b)),
}


class Tmpl:
    def __init__(self, name, kind=None, insts=None, nets=None, in_ctx=False):
        self.name, self.kind, self.insts, self.nets, self.in_ctx = name, kind, insts or [], nets or [], in_ctx
        self.seq = LEAF_KINDS[kind][0] if kind else any(t.seq for t, _ in self.insts)

    def source(self):
        clk = "    clk = Port.input(Bit)\n" if self.seq else ""
        head = f"class {self.name}(cohdl.Entity):\n{clk}    a = Port.input(Unsigned[2])\n    b = Port.input(Unsigned[2])\n"
        if self.kind:
            seq, expr, _ = LEAF_KINDS[self.kind]
            head += f"    s = Port.output(Unsigned[2]{', default=0' if seq else ''})\n\n    def architecture(self):\n"
            deco = "@std.sequential(std.Clock(self.clk))" if seq else "@std.concurrent"
            return head + f"        {deco}\n        def logic():\n            self.s <<= {expr}\n"
        head += "    s = Port.output(Unsigned[2])\n\n    def architecture(self):\n"
        body = [f'        {n} = Signal[Unsigned[2]](name="{n}")' for n in self.nets]
        ind = "        "
        if self.in_ctx:
            body += ["        @std.concurrent", "        def wiring():"]
            ind = "            "
        for t, conn in self.insts:
            body.append(ind + inst_src(t, conn, lambda n: f"self.{n}" if n in ("a", "b", "s", "clk") else n))
        return head + "\n".join(body) + "\n"


def inst_src(t, conn, actual):
    keys = list(conn)
    # keyword arguments in an order that differs from the declaration order
    keys = keys[1:] + keys[:1]
    args = [f"{k}={conn[k] if conn[k].startswith('self.w') else actual(conn[k])}" for k in keys]
    if t.seq:
        args.insert(1, "clk=self.clk")
    return f"{t.name}({', '.join(args)})"


def flatten(t, prefix, netmap, out):
    """inline template t; netmap: formal port -> ADL expression (inputs) / global net name (output)"""
    if t.kind:
        seq, _, fn = LEAF_KINDS[t.kind]
        st = assign("next", netmap["s"], fn(netmap["a"], netmap["b"]))
        if seq:
            out["seq"].append(seq_ctx(f"p_{prefix}", [st]))
            out["registered"].add(netmap["s"])
        else:
            out["conc"].append(st)
        return
    glob = {n: f"{prefix}_{n}" for n in t.nets}
    for n in t.nets:
        out["nets"].append(glob[n])
    for i, (sub, conn) in enumerate(t.insts):
        def res(n, is_out=False):
            if n in glob:
                return glob[n] if is_out else ref(glob[n])
            return netmap[n]
        flatten(sub, f"{prefix}i{i}", {"a": res(conn["a"]), "b": res(conn["b"]), "s": res(conn["s"], True)}, out)


def random_tree(rng, idx, depth, with_slices):
    S = f"_r{idx}"
    leaves = {k: Tmpl(f"L{k}{S}", kind=k) for k in LEAF_KINDS}
    levels = [list(leaves.values())]
    count = [0]

    def composite(level):
        pool = [t for lv in levels[:level] for t in lv]
        n = rng.choice((2, 2, 3))
        nets, insts, avail = [], [], ["a", "b"]
        for i in range(n):
            sub = rng.choice(pool if i or level < 2 else levels[level - 1])      # at least one instance of the level below
            out = "s" if i == n - 1 else f"n{i}"
            if out != "s":
                nets.append(out)
            insts.append((sub, {"a": rng.choice(avail), "b": rng.choice(avail), "s": out}))
            avail.append(out) if out != "s" else None
        count[0] += 1
        return Tmpl(f"C{level}x{count[0]}{S}", insts=insts, nets=nets, in_ctx=rng.random() < 0.3)

    for level in range(1, depth + 1):
        levels.append([composite(level) for _ in range(2)])
    # the top entity: inputs x, y (and slices of w), one output per instance so that nothing is optimised away
    pool = [t for lv in levels for t in lv]
    top_insts, top_nets, avail = [], [], (["x", "self.w[1:0].unsigned", "self.w[2:1].unsigned"] if with_slices else ["x", "y"])
    n_top = rng.randint(2, 3)
    used = []
    for i in range(n_top):
        sub = levels[-1][i % 2] if i < 2 else rng.choice(pool)          # repeated templates: the deepest composites first
        out = f"o{i}"
        top_insts.append((sub, {"a": rng.choice(avail), "b": rng.choice(avail), "s": out}))
        avail.append(out)
        used.append(sub)
    return S, levels, top_insts


def used_templates(top_insts):
    seen, order = set(), []

    def walk(t):
        if t.name in seen:
            return
        for sub, _ in t.insts:
            walk(sub)
        seen.add(t.name)
        order.append(t)
    for t, _ in top_insts:
        walk(t)
    return order


def random_designs(tier, seed):
    rng = random.Random(seed)
    ents = []
    n = 8
    for idx in range(n):
        with_slices = idx % 4 == 3
        while True:
            S, levels, top_insts = random_tree(rng, idx, 1 + idx % 2, with_slices)
            out = {"conc": [], "seq": [], "nets": [], "registered": set()}
            for i, (t, conn) in enumerate(top_insts):
                def res(n):
                    if n.startswith("self.w"):
                        hi, lo = (1, 0) if "[1:0]" in n else (2, 1)
                        return view(slice_(ref("w"), hi, lo), "u")
                    return ref(n)
                flatten(t, f"t{i}", {"a": res(conn["a"]), "b": res(conn["b"]), "s": conn["s"]}, out)
            # keeps the product small: <= 4 state bits, and the elaborated design cheap enough to interpret
            if 1 <= len(out["registered"]) <= 2 and len(out["conc"]) + len(out["seq"]) <= 9:
                break
        name = f"E12R_{idx:03d}"
        tmpls = used_templates(top_insts)
        outs = [conn["s"] for _, conn in top_insts]
        ports = [port("clk", "in", BIT), port("x", "in", U2)] + ([port("w", "in", T("u", 3))] if with_slices else [port("y", "in", U2)]) + \
                [port(o, "out", U2, **({"default": 0} if o in out["registered"] else {})) for o in outs]
        objs = [obj(nm, "signal", U2, **({"default": 0} if nm in out["registered"] else {})) for nm in out["nets"]]
        ctxs = ([conc_ctx("wires", out["conc"])] if out["conc"] else []) + out["seq"]
        top_src = f"class {name}(cohdl.Entity):\n    clk = Port.input(Bit)\n    x = Port.input(Unsigned[2])\n" + \
                  ("    w = Port.input(Unsigned[3])\n" if with_slices else "    y = Port.input(Unsigned[2])\n") + \
                  "".join(f"    {o} = Port.output(Unsigned[2])\n" for o in outs) + "\n    def architecture(self):\n" + \
                  "\n".join("        " + inst_src(t, conn, lambda nme: f"self.{nme}") for t, conn in top_insts) + "\n"
        src = "\n\n".join(t.source() for t in tmpls) + "\n\n" + top_src
        e = entity(name, ports, objs, ctxs)
        e["source_override"] = src
        e["family"] = f"random_tree_{idx}_depth{max((1 if t.kind else int(t.name[1])) for t in tmpls)}_templates{len(tmpls)}"
        io = lambda t: ([["clk", "in", "std_logic", -1]] if t.seq else []) + [["a", "in", "unsigned", 2], ["b", "in", "unsigned", 2], ["s", "out", "unsigned", 2]]
        e["ifaces"] = {t.name.lower(): io(t) for t in tmpls}
        # the elaborated hierarchy is expensive to interpret (one clock settles every port association): breadth-first prefix
        e["budget"] = {"quick": 130, "thorough": 130}
        ents.append(e)
    return ents


def build():
    ents = []
    for i, (tag, body, ports, objs, ctxs, leaves) in enumerate(tops()):
        S = f"_{i}"
        name = f"E12_{i:03d}"
        top_ports = "\n".join(
            f"    {p['n']} = Port.input({ty_py(p['ty'])})" for p in ports if p["dir"] == "in" and p["n"] in ("clk", "x", "y"))
        src = LEAVES.replace("{S}", S) + f"\n\nclass {name}(cohdl.Entity):\n{top_ports}\n" + body.replace("{S}", S)
        e = entity(name, ports, objs, ctxs)
        e["source_override"] = src
        e["family"] = tag
        e["ifaces"] = {f"{l}{S}": IFACE[l] for l in leaves}
        ents.append(e)
    return ents


def run(tier):
    t0 = time.time()
    V = vlib.Verdict("C12")
    ents = build() + random_designs(tier, vlib.seed() + 1212)
    with vlib.Scratch() as scratch:
        # one module per design (the leaf templates are suffixed per design so that every compilation is separate)
        obs = vlib.compile_entities(ents, scratch, per_module=1, tag="gc12")
        recs = []
        for e in ents:
            ob = vlib.read_obs(obs[e["name"]])
            if ob["outcome"] == "accepted" and ob["reader"] == "ok":
                recs.append({"id": e["name"], "ast": ob["ast"], "ifaces": e["ifaces"], "typecheck": 0, "top": e["name"].lower()})
        # static part: interface, port maps, once-only, bottom-up (VhdlStatic evaluated by TLC)
        res = vlib.run_tlc_shards("MC_Static.tla", "MC_Static.cfg", [{"designs": s} for s in vlib.shard(recs, 4)], scratch, timeout=600)
        fam = {e["name"]: e["family"] for e in ents}
        by = {e["name"]: e for e in ents}
        static_checked = 0
        for r in res:
            p = r["parsed"]
            if r["timeout"] or p["errors"]:
                V.machinery_error("MC_Static: " + " / ".join(p["errors"][:3]) + r["out"][-500:])
            for did, f in p["viol"]:
                f = json.loads(f)
                for clause in ("emitted_once", "bottom_up", "port_map"):
                    if f.get(clause):
                        V.violation(f"static-{clause}:{fam[did]}|{json.dumps(f[clause])[:200]}",
                                    {"clause": clause, "items": f[clause], "source_py": by[did]["source_override"], "vhdl": obs[did]["vhdl"]})
            for did, ifc in p["case"].items():
                static_checked += 1
                got = json.loads(ifc)
                for en, exp in by[did]["ifaces"].items():
                    g = [[x["n"], x["mode"], x["tn"], x["w"]] for x in got.get(en, [])]
                    if g != exp:
                        V.violation(f"static-interface:{fam[did]}|{en}: emitted {g} declared {exp}",
                                    {"clause": "Interface", "entity": en, "emitted": g, "declared": exp, "vhdl": obs[did]["vhdl"]})
        # dynamic part: hierarchical VHDL (elaborated by VhdlSem) versus CoSem of the flat reference, all input sequences
        V, cov = product.run("C12", tier, ents, lambda e: 0, scratch, timeout=1500 if tier == "quick" else 9000, verdict=V, finish=False)
    cov.update({"static_designs_checked": static_checked,
                "rule": "hand-written instantiation trees (leaf templates add/register/compare; nested entity used twice; same template "
                        "several times; keyword arguments out of declaration order; slice and typed-view actuals; parent register wired "
                        "to an instance input; fan-out 3) with their flat reference descriptions; VhdlStatic interface / port-map / "
                        "once-only / bottom-up predicates evaluated by TLC; complete reachable product of the elaborated hierarchy "
                        "with the flat reference under all input sequences"})
    rc = V.finish()
    vlib.write_evidence("C12", tier, "model_checking", cov, time.time() - t0, len(V.new), product.ASSUMPTIONS + ["flat reference descriptions in harness/props/c12.py"])
    return rc
