"""C17: serialisation round-trips with the documented bit layout."""
import os, json, time, subprocess, itertools, random
import vlib

LEAVES = [("Bit", 1), ("bool", 1), ("BitVector[2]", 2), ("Unsigned[2]", 2), ("Signed[3]", 3), ("BitVector[1]", 1),
          ("std.SFixed[1:-1]", 3), ("std.UFixed[0:-1]", 2)]


def leaf(py, w):
    return {"k": "leaf", "w": w, "py": py}


def compositions(tier):
    """type expressions up to nesting 2 (quick) / 3 (thorough) with total width <= 8 / 10"""
    rng = random.Random(170)
    out = []
    recs = []
    cnt = [0]

    def rec(fields, base=None):
        cnt[0] += 1
        t = {"k": "rec", "fields": fields, "names": [f"f{i}" for i in range(len(fields))], "cls": f"R{cnt[0]}", "base": base}
        recs.append(t)
        return t

    L = [leaf(p, w) for p, w in LEAVES]
    for l in L:
        out.append(l)
        if l["py"] == "bool":
            continue      # elements of std.Array[bool, n] cannot be referenced (RefQualifierFail in get_elem): API limitation, noted in DESIGN.md
        for n in (1, 2, 3):
            out.append({"k": "arr", "el": l, "n": n})
    for a, b in itertools.product(L[:6], L[:6]):
        out.append(rec([a, b]))
    for a, b, c in rng.sample(list(itertools.product(L, L, L)), 25 if tier == "quick" else 120):
        out.append(rec([a, b, c]))
    inner = [rec([L[0], L[3]]), rec([L[4], L[0]]), {"k": "arr", "el": L[2], "n": 2}, {"k": "arr", "el": L[0], "n": 3}]
    for i, o in itertools.product(inner, L[:5]):
        out.append(rec([i, o]))
        out.append(rec([o, i]))
    for i in inner[:2]:
        out.append({"k": "arr", "el": i, "n": 2})
    out.append(rec([inner[0], inner[1]]))
    # inheritance: "inherited fields first"
    base = rec([L[0], L[3]])
    out.append(base)
    d = rec([L[0], L[3], L[4], L[0]], base=base["cls"])     # Derived(Base) adds two fields
    d["names"] = ["f0", "f1", "g0", "g1"]
    d["own"] = 2
    out.append(d)
    maxw = 8 if tier == "quick" else 10

    def width(t):
        return t["w"] if t["k"] == "leaf" else t["n"] * width(t["el"]) if t["k"] == "arr" else sum(width(f) for f in t["fields"])

    return [t for t in out if width(t) <= maxw], recs


def module_source(recs):
    src = ["from __future__ import annotations", "import cohdl", "from cohdl import Bit, BitVector, Unsigned, Signed", "from cohdl import std", ""]

    def ann(t):
        if t["k"] == "leaf":
            return t["py"]
        if t["k"] == "arr":
            return f"std.Array[{ann(t['el'])}, {t['n']}]"
        return t["cls"]

    for r in recs:
        base = r.get("base") or "std.Record"
        src.append(f"class {r['cls']}({base}):")
        own = r.get("own")
        names, fields = (r["names"][-own:], r["fields"][-own:]) if own else (r["names"], r["fields"])
        for nm, ft in zip(names, fields):
            src.append(f"    {nm}: {ann(ft)}")
        src.append("")
    return "\n".join(src)


def leaf_paths(t, path="x"):
    """access expressions of the leaves of a value of type t, in declaration / element order"""
    if t["k"] == "leaf":
        return [(path, t["w"])]
    if t["k"] == "arr":
        out = []
        for i in range(t["n"]):
            out += leaf_paths(t["el"], f"{path}[{i}]")
        return out
    out = []
    for nm, ft in zip(t["names"], t["fields"]):
        out += leaf_paths(ft, f"{path}.{nm}")
    return out


def hw_module(types, recs, tier):
    """wrapper entities for the emitted-logic part: from_bits, every leaf, to_bits"""
    def ann(t):
        return t["py"] if t["k"] == "leaf" else f"std.Array[{ann(t['el'])}, {t['n']}]" if t["k"] == "arr" else t["cls"]

    def width(t):
        return t["w"] if t["k"] == "leaf" else t["n"] * width(t["el"]) if t["k"] == "arr" else sum(width(f) for f in t["fields"])

    src = [module_source(recs).replace("from cohdl import Bit, BitVector, Unsigned, Signed", "from cohdl import Bit, BitVector, Unsigned, Signed, Port"), ""]
    ents = []
    maxw = 6 if tier == "quick" else 8
    chosen = [t for t in types if width(t) <= maxw]
    if tier == "quick":
        # every leaf kind, every array, and a slice of the records
        chosen = [t for i, t in enumerate(chosen) if t["k"] != "rec" or i % 3 == 0]
    for i, t in enumerate(chosen):
        n = width(t)
        name = f"E17H_{i:03d}"
        lp = leaf_paths(t)
        src.append(f"class {name}(cohdl.Entity):")
        src.append(f"    b = Port.input(BitVector[{n}])")
        src.append(f"    back = Port.output(BitVector[{n}])")
        for j, (_, w) in enumerate(lp):
            src.append(f"    l{j} = Port.output(BitVector[{w}])")
        src.append("")
        src.append("    def architecture(self):")
        src.append("        @std.concurrent")
        src.append("        def logic():")
        src.append(f"            x = std.from_bits[{ann(t)}](self.b)")
        src.append("            self.back <<= std.to_bits(x)")
        for j, (path, _) in enumerate(lp):
            src.append(f"            self.l{j} <<= std.to_bits({path})")
        src.append("")
        ents.append((name, t, len(lp)))
    return "\n".join(src) + "\n", ents


def strip(t):
    """the type expression as the specification sees it"""
    if t["k"] == "leaf":
        return {"k": "leaf", "w": t["w"]}
    if t["k"] == "arr":
        return {"k": "arr", "el": strip(t["el"]), "n": t["n"]}
    return {"k": "rec", "fields": [strip(f) for f in t["fields"]]}


def run(tier):
    t0 = time.time()
    V = vlib.Verdict("C17")
    types, recs = compositions(tier)
    with vlib.Scratch() as scratch:
        open(os.path.join(scratch, "c17_types.py"), "w").write(module_source(recs))
        json.dump([{"name": f"T{i}", "t": t} for i, t in enumerate(types)], open(os.path.join(scratch, "types.json"), "w"))
        env = dict(os.environ, PYTHONPATH=vlib.REPO, PYTHONHASHSEED="0")
        p = subprocess.run([vlib.VENV_PY, os.path.join(vlib.VERIF, "harness", "pyobs_c17.py"), os.path.join(scratch, "types.json"), scratch,
                            os.path.join(scratch, "out.json")], env=env, capture_output=True, text=True, cwd=scratch)
        if p.returncode != 0:
            V.machinery_error("pyobs_c17 failed: " + p.stderr[-1500:])
            cases = []
        else:
            cases = json.load(open(os.path.join(scratch, "out.json")))["cases"]

        def shape(t):
            return t["py"] if t["k"] == "leaf" else f"Array[{shape(t['el'])},{t['n']}]" if t["k"] == "arr" else \
                "Record(" + ",".join(shape(f) for f in t["fields"]) + (")" if not t.get("base") else ")<inherits>")

        judged = []
        for c in cases:
            if "err" in c:
                V.violation(f"raises:{shape(c['t'])}|b={c['b']} {c['err']}", {"clause": "Total", "case": c})
            else:
                judged.append(dict(c, t=strip(c["t"]), shape=shape(c["t"])))
        shards = vlib.shard(judged, vlib.NCPU)
        res = vlib.run_tlc_shards("MC_Serial.tla", "MC_Serial.cfg", [{"cases": s} for s in shards], scratch, timeout=1500)
        checked = 0
        for sh, r in zip(shards, res):
            pr = r["parsed"]
            if r["timeout"] or pr["errors"] or "cases" not in pr["stat"]:
                V.machinery_error("MC_Serial: " + " / ".join(pr["errors"][:3]) + r["out"][-600:])
                continue
            checked += pr["stat"]["cases"][0]
            for i, verdict in pr["viol"]:
                c = sh[i - 1]
                V.violation(f"{verdict}:{c['shape']}|b={c['b']} leaves={c['leaves']} back={c['back']} built={c['built']} cnt={c['cnt']}",
                            {"clause": verdict, "case": c})
        # ---- emitted logic: the same layout in the compiled wrappers, all input patterns (MC_SerialHw)
        hw_src, hw_ents = hw_module(types, recs, tier)
        mods = [{"name": "gc17hw", "source": hw_src, "entities": [n for n, _, _ in hw_ents]}]
        obs = vlib.compile_modules(mods, scratch)
        hrecs, hw_rejected = [], 0
        shape_of = {}
        for name, t, nleaves in hw_ents:
            ob = obs.get(name)
            shape_of[name] = shape(t)
            if ob is None or ob["outcome"] == "crash":
                V.machinery_error(f"hw wrapper {name} ({shape(t)}): {ob['error']['msg'] if ob else 'no observation'}")
                continue
            if ob["outcome"] != "accepted":
                hw_rejected += 1
                V.violation(f"hw-rejected:{shape(t)}|{ob['error']['cls']}: {ob['error']['msg'][:140]}", {"clause": "Total", "type": t, "error": ob["error"]})
                continue
            ob = vlib.read_obs(ob)
            if ob["reader"] != "ok":
                V.machinery_error(f"reader: {name} ({shape(t)}): {ob.get('reader_msg')}")
                continue
            hrecs.append({"id": name, "ast": ob["ast"], "top": name.lower(), "t": strip(t), "n": nleaves})
        hres = vlib.run_tlc_shards("MC_SerialHw.tla", "MC_SerialHw.cfg", [{"designs": s} for s in vlib.shard(hrecs, vlib.NCPU)], scratch,
                                   timeout=1500 if tier == "quick" else 6000) if hrecs else []
        hw_patterns = 0
        for r in hres:
            pr = r["parsed"]
            if r["timeout"] or pr["errors"] or "patterns" not in pr["stat"]:
                V.machinery_error("MC_SerialHw: " + " / ".join(pr["errors"][:3]) + r["out"][-600:])
                continue
            hw_patterns += pr["stat"]["patterns"][0]
            for name, b, verdict in pr["viol"]:
                V.violation(f"hw-{verdict}:{shape_of[name]}|b={b}", {"clause": verdict, "design": name, "b": b, "vhdl": obs[name]["vhdl"]})
    cov = {"evaluations": checked + hw_patterns, "hw_wrappers": len(hrecs), "hw_patterns": hw_patterns, "hw_rejected": hw_rejected,
           "distinct_nontrivial": len({c["shape"] for c in judged}),
           "rule": "type compositions (Bit, bool, BitVector/Unsigned/Signed, SFixed/UFixed leaves; std.Array; Record incl. nested and "
                   "inherited) up to nesting 2 with total width <= 8 x ALL bit patterns: count_bits, to_bits(from_bits[T](b)) == b, the "
                   "fields read from the real object against the documented layout, and to_bits of the object rebuilt field by field; "
                   "validated by TLC against spec/Serial.tla; distinct_nontrivial = distinct type shapes",
           "samples": [{"type": c["shape"], "b": c["b"], "leaves": c["leaves"]} for c in judged[:: max(1, len(judged) // 5)][:5]],
           "type_shapes": len(types), "exhaustive": True}
    rc = V.finish()
    vlib.write_evidence("C17", tier, "model_checking", cov, time.time() - t0, len(V.new),
                        ["spec/Serial.tla transcribes the layout sentence of C17", "harness/pyobs_c17.py reads fields through the public API",
                         "emitted wrappers are read by harness/vhdl_reader.py and interpreted by spec/VhdlSem.tla", "TLC"])
    return rc
