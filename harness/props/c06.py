"""C06: every accepted design yields legal, well-typed, self-consistent VHDL."""
import os, json, time, random, subprocess, glob, itertools
import concurrent.futures as cf
import vlib, product, gen_expr, gen_seq
from adl import *  # noqa

CLAUSES = ("declared_twice", "hides_predefined", "undeclared", "out_port_read", "case_defects", "sensitivity", "typing",
           "drivers", "variables", "emitted_once", "bottom_up", "port_map")

HEADER = '''from __future__ import annotations
import cohdl
from cohdl import Bit, BitVector, Unsigned, Signed, Port, Signal, Variable, Null, Full
from cohdl import std
'''


def corpus(scratch):
    """the upstream reference designs (accepted by ghdl upstream): every predicate must hold on all of them"""
    out = os.path.join(scratch, "corpus")
    env = dict(os.environ, PYTHONPATH=vlib.REPO, PYTHONHASHSEED="0")
    p = subprocess.run([vlib.VENV_PY, os.path.join(vlib.VERIF, "harness", "corpus.py"), vlib.REPO, out], env=env,
                       capture_output=True, text=True, cwd=scratch)
    if p.returncode != 0:
        raise RuntimeError("corpus: " + p.stderr[-1200:])
    designs = []
    idx = json.load(open(os.path.join(out, "index.json")))
    for r in idx:
        for e in r["entities"]:
            if "file" in e:
                designs.append((f"corpus:{r['module'].split('.')[-1]}:{e['name']}", e["name"], open(os.path.join(out, e["file"])).read()))
    return designs


NAME_CASES = [
    # (tag, names for: input port, output port, signal, variable, process) -- user-chosen names that need care
    ("reserved-words", "signal_", "out_", "process", "variable", "entity"),
    ("reserved-ports", "in_", "range_", "select", "type", "begin"),
    ("case-variants", "Data", "DATA", "data", "dAta", "DaTa"),
    ("predefined-functions", "to_integer", "resize", "rising_edge", "to_unsigned", "shift_left"),
    ("predefined-types", "boolean", "integer", "std_logic", "unsigned", "natural"),
    ("helper-function", "cohdl_bool_to_std_logic", "inp", "temp", "temp1", "buffer_x"),
    ("underscores", "_a_", "b__c", "_d", "e_", "__f"),
    ("tempN-lookalikes", "temp", "temp2", "buffer_o", "s_proc", "state_0"),
    ("mixed-collisions", "Stage", "stage", "STAGE", "Stage1", "stage1"),
]


def naming_design(name, tag, names):
    """one entity whose objects carry the given (awkward) names; the names are given with name=... where the Python
    identifier cannot be used directly"""
    pin, pout, sig, var, proc = names

    def ident(s):
        s2 = "".join(c if c.isalnum() or c == "_" else "_" for c in s)
        import keyword
        return s2 + "_py" if keyword.iskeyword(s2) or not s2.isidentifier() else s2

    src = f'''
class {name}(cohdl.Entity):
    clk = Port.input(Bit)
    {ident(pin)} = Port.input(Unsigned[2], name="{pin}")
    {ident(pout)}_o = Port.output(Unsigned[3], name="{pout}", default=0)
    flag = Port.output(Bit, default=False)

    def architecture(self):
        {ident(sig)}_s = Signal[Unsigned[2]](0, name="{sig}")
        {ident(var)}_v = Variable[Unsigned[2]](0, name="{var}")

        @std.sequential(std.Clock(self.clk), comment="{tag}")
        def {ident(proc)}_p():
            nonlocal {ident(sig)}_s, {ident(var)}_v
            {ident(var)}_v @= self.{ident(pin)} + 1
            {ident(sig)}_s <<= {ident(var)}_v
            self.{ident(pout)}_o <<= ({ident(sig)}_s + {ident(var)}_v).resize(3)
            self.flag <<= {ident(sig)}_s > self.{ident(pin)}
'''
    return src


def onreset_designs():
    """registered on_reset actions: the C04 designs, plus an action that reads a signal under an ASYNCHRONOUS reset (the reset
    branch is outside the clock-edge guard, so the sensitivity list must contain what it reads)"""
    from adl import assign, pint, ref, bin_, if_, reset
    from props import c04
    ents = c04.onreset_designs("quick")
    for e in ents:
        e["name"] = e["name"].replace("E04R", "E06R")
        e["family"] = "onreset:" + e["family"]
    k = len(ents)
    for low in (False, True):
        body = [assign("next", "s", ref("d")), assign("next", "q", ref("s"))]
        e = gen_seq.seq_entity(f"E06R_{k:03d}", body, reset("rst", active_low=low, is_async=True), "onreset:async_reads_signal")
        e["ctxs"][0]["onreset"] = [assign("next", "o", pint(5)), if_(bin_("eq", ref("d"), pint(3)), [assign("next", "s", pint(1))])]
        ents.append(e)
        k += 1
    return ents


def run(tier):
    t0 = time.time()
    V = vlib.Verdict("C06")
    rng = random.Random(vlib.seed() + 606)
    with vlib.Scratch() as scratch:
        texts = []   # (family, top entity name, vhdl text)
        try:
            texts += corpus(scratch)
        except Exception as e:  # noqa
            V.machinery_error(str(e))
        if tier == "quick":
            # quick tier: the small upstream designs only (reading the large ones into TLC takes minutes)
            texts = [t for t in texts if t[2].count("\n") <= 400][:70]
        ncorpus = len(texts)
        # naming generator
        mods, fam = [], {}
        for i, (tag, *names) in enumerate(NAME_CASES):
            nm = f"E06N_{i:03d}"
            mods.append({"name": f"gc06n_{i:03d}", "source": HEADER + naming_design(nm, tag, names), "entities": [nm]})
            fam[nm] = "naming:" + tag
        # typed families: expression designs (C02 families, a slice of them), sequential / coroutine bodies
        ents = []
        fams = gen_expr.all_families("quick", rng)
        step = 3 if tier == "quick" else 1
        for j, (tag, in_ports, exprs) in enumerate(fams[::step]):
            e = gen_expr.mk_entity(f"E06X_{j:04d}", in_ports, exprs)
            e["family"] = "expr:" + tag
            ents.append(e)
        ents += gen_seq.seq_designs(tier, rng, "E06S", n_random=25 if tier == "quick" else 300, with_extras=True, opts=True)
        ents += gen_seq.coro_designs(tier, rng, "E06C", n_random=25 if tier == "quick" else 300, opts=True)
        ents += onreset_designs()
        for e in ents:
            fam[e["name"]] = e["family"]
        obs = vlib.compile_modules(mods, scratch)
        obs.update(vlib.compile_entities(ents, scratch, tag="gc06"))
        for name, ob in obs.items():
            if ob["outcome"] == "accepted":
                texts.append((fam[name], name, ob["vhdl"]))
            elif ob["outcome"] == "crash":
                V.machinery_error(f"generated module broken ({fam[name]}): {ob['error']['msg']}")
            # a rejected design is outside C06 ("every ACCEPTED design")
        # (a) parses
        recs, parsed, parsed_only = [], 0, []
        for f, top, text in texts:
            st, r = vlib.vhdl_reader.classify(text)
            if st == "syntax_error":
                V.violation(f"syntax:{f}|{r}", {"clause": "Parses", "message": r, "vhdl": text})
            elif st == "unsupported":
                V.machinery_error(f"reader: unsupported construct in {f}: {r}")
            else:
                parsed += 1
                # the all-branches typing pass elaborates and interprets the design; it is run on the generated designs and,
                # in the thorough tier, on the (large) upstream designs too
                big = f.startswith("corpus:") and (tier == "quick" or text.count("\n") > 1500)
                if len(json.dumps(r)) > 1500000:
                    # a few upstream designs are enormous (generated tables, > 10 k lines): they are parsed by the strict reader,
                    # evaluating the predicates over them in TLC takes hours
                    parsed_only.append(f)
                    continue
                recs.append({"id": f"{f}#{top}", "ast": r, "ifaces": {}, "typecheck": 0 if big else 1, "top": top.lower()})
        # (b) static predicates, evaluated by TLC
        recs.sort(key=lambda r: -len(json.dumps(r["ast"])))
        res = vlib.run_tlc_shards("MC_Static.tla", "MC_Static.cfg", [{"designs": s} for s in vlib.shard(recs, vlib.NCPU if tier == "quick" else 32)],
                                  scratch, timeout=900 if tier == "quick" else 6000, heap="3g", nproc=vlib.NCPU if tier == "quick" else 10)
        checked = 0
        text_of = {f"{f}#{top}": text for f, top, text in texts}
        counts = {c: 0 for c in CLAUSES}
        for r in res:
            p = r["parsed"]
            if r["timeout"] or p["errors"] or "designs" not in p["stat"]:
                V.machinery_error("MC_Static: " + " / ".join(p["errors"][:3]) + r["out"][-700:])
                continue
            checked += p["stat"]["designs"][0]
            for did, fj in p["viol"]:
                fnd = json.loads(fj)
                for clause in CLAUSES:
                    if fnd.get(clause):
                        counts[clause] += 1
                        V.violation(f"{clause}:{did.split('#')[0]}|{json.dumps(fnd[clause])[:240]}",
                                    {"clause": clause, "items": fnd[clause], "vhdl": text_of.get(did, "")})
    cov = {"programs": len(texts), "disagreements_checked": checked * len(CLAUSES), "evaluations": checked * len(CLAUSES),
           "distinct_nontrivial": checked, "upstream_reference_designs": ncorpus, "parsed": parsed,
           "predicates": list(CLAUSES), "parsed_only_too_large_for_tlc": parsed_only, "designs_with_findings_per_predicate": counts,
           "samples": [{"design": f, "top": top, "vhdl_lines": text.count("\n")} for f, top, text in texts[:: max(1, len(texts) // 4)][:4]],
           "rule": "every design is read by the strict VHDL reader (syntax, reserved words, basic identifiers) and the named VhdlStatic "
                   "predicates are evaluated on it by TLC: declared once per region (case-insensitive), no declaration hides a predefined "
                   "name the text uses, every name used is declared, output ports never read, case/select choices distinct with others, "
                   "sensitivity lists complete outside edge-guarded regions, every statement of every branch well-typed with matching "
                   "widths (evaluated against typed values), one driver, variables local, port maps complete; designs = upstream "
                   "reference designs (calibration: ghdl accepts them upstream) + naming generator + expression/sequential/coroutine families"}
    rc = V.finish()
    vlib.write_evidence("C06", tier, "translation_validation", cov, time.time() - t0, len(V.new),
                        ["harness/vhdl_reader.py implements the VHDL-93 lexical/syntactic rules for the emitted subset",
                         "spec/VhdlStatic.tla + spec/NumericStd.tla transcribe the static semantics of the emitted subset (not the whole LRM)", "TLC"])
    return rc
