"""C16: std timing utilities are exact to the clock."""
import random, time, os, json, subprocess
import vlib, product, gen_seq
from adl import *  # noqa

U2, U3 = T("u", 2), T("u", 3)
m = lambda k: assign("next", "o", pint(k))


def wait_designs(tier):
    ents = []
    k = 0

    def add(tag, body, extra_in=(), waiter_max=None):
        nonlocal k
        ports = gen_seq.base_ports(False, list(extra_in))
        ports += [port("o", "out", U3, default=0), port("p", "out", BIT, default=0), port("q", "out", U2, default=0)]
        e = entity(f"E16_{k:04d}", ports, [obj("v", "variable", U2, default=0)], [seq_ctx("proc", body, coroutine=True)])
        if waiter_max:
            e["waiter_max"] = waiter_max
        e["family"] = tag
        ents.append(e)
        k += 1

    A = ref("a")
    for via in ("std", "waiter"):
        for n in range(1, 6 if tier == "quick" else 9):
            # reached after a statement; two waits in sequence; inside a loop; after an await
            wm = max(7, n)      # the Waiter's max_duration must cover the longest wait
            add(f"wait_{via}_mid_{n}", [m(1), waitfor(n, via=via), m(2)], waiter_max=wm)
            add(f"wait_{via}_twice_{n}", [m(1), waitfor(n, via=via), m(2), waitfor(max(1, n - 1), via=via), m(3)], waiter_max=wm)
            add(f"wait_{via}_after_await_{n}", [await_(A), m(1), waitfor(n, via=via), m(2)], waiter_max=wm)
            add(f"wait_{via}_loop_{n}", [while_(TRUE, [assign("push", "p", TRUE), waitfor(n, via=via)])], waiter_max=wm)
            # first statement of the process
            add(f"wait_{via}_first_{n}", [waitfor(n, via=via), m(1), await_(A), m(2)], waiter_max=wm)
        # run-time duration (all values of a 3-bit input), with and without allow_zero
        add(f"wait_{via}_runtime", [m(1), await_(bin_("ne", ref("n"), pint(0))), waitfor(ref("n"), via=via), m(2)], [("n", U3)], 7)
        add(f"wait_{via}_runtime_zero", [m(1), waitfor(ref("n"), allow_zero=True, via=via), m(2), await_(A)], [("n", U3)], 7)
        add(f"wait_{via}_const_zero", [m(1), waitfor(0, allow_zero=True, via=via), m(2), await_(A), m(3)])
    return ents


# ---- library components against reference descriptions written from their docstrings
HEADER = '''from __future__ import annotations
import cohdl
from cohdl import Bit, BitVector, Unsigned, Signed, Port, Signal, Variable, Null, Full
from cohdl import std
'''


def delayed_design(name, n, w, initial):
    """C16: "std.delayed(x,n) reproduces x exactly n steps later starting from the given initial values": the returned
    signal is x delayed by n steps; it is shown here through one more register (`o <<= ...` in the same context)"""
    src = f'''
class {name}(cohdl.Entity):
    clk = Port.input(Bit)
    d = Port.input(Unsigned[{w}])
    o = Port.output(Unsigned[{w}], default={initial})

    def architecture(self):
        @std.sequential(std.Clock(self.clk))
        def proc():
            self.o <<= std.delayed(self.d, {n}, {initial})
'''
    ty = T("u", w)
    regs = [obj(f"r{i}", "signal", ty, default=initial) for i in range(1, n + 1)]
    chain = ["d"] + [f"r{i}" for i in range(1, n + 1)] + ["o"]
    body = [assign("next", chain[i + 1], ref(chain[i])) for i in range(n + 1)]
    e = entity(name, [port("clk", "in", BIT), port("d", "in", ty), port("o", "out", ty, default=initial)], regs, [seq_ctx("proc", body)])
    e["source_override"] = src
    e["family"] = f"delayed_{n}_w{w}_init{initial}"
    return e


def delayline_design(name, n, w, initial, in_ctx):
    """DelayLine(inp, n, initial, ctx): "line[k] is inp delayed by k", last() by n; defined outside a context with `ctx=` or
    inside a sequential context (every element shown through a concurrent assignment, so no extra register)"""
    outs = "\n".join(f"    o{k} = Port.output(Unsigned[{w}])" for k in range(1, n + 1))
    shows = "\n".join(f"        std.concurrent_assign(self.o{k}, line[{k}])" for k in range(1, n)) + \
            f"\n        std.concurrent_assign(self.o{n}, line.last())"
    if in_ctx:
        make = f"""        line = None

        @std.sequential(std.Clock(self.clk))
        def proc():
            nonlocal line
            line = std.DelayLine(self.d, {n}, initial={initial})
"""
        # elements are only reachable from inside the context: show them through registers declared outside
        shows = "\n".join(f"            self.o{k} <<= line[{k}]" for k in range(1, n)) + f"\n            self.o{n} <<= line.last()"
        src = f"""
class {name}(cohdl.Entity):
    clk = Port.input(Bit)
    d = Port.input(Unsigned[{w}])
{outs.replace("])", f"], default={initial})")}

    def architecture(self):
        @std.sequential(std.Clock(self.clk))
        def proc():
            line = std.DelayLine(self.d, {n}, initial={initial})
{shows}
"""
    else:
        src = f"""
class {name}(cohdl.Entity):
    clk = Port.input(Bit)
    d = Port.input(Unsigned[{w}])
{outs}

    def architecture(self):
        ctx = std.SequentialContext(std.Clock(self.clk))
        line = std.DelayLine(self.d, {n}, initial={initial}, ctx=ctx)
{shows}
"""
    ty = T("u", w)
    regs = [obj(f"r{i}", "signal", ty, default=initial) for i in range(1, n + 1)]
    chain = ["d"] + [f"r{i}" for i in range(1, n + 1)]
    body = [assign("next", chain[i + 1], ref(chain[i])) for i in range(n)]
    if in_ctx:
        # o_k <<= line[k] inside the same clocked context: one more register per tap
        ports = [port("clk", "in", BIT), port("d", "in", ty)] + [port(f"o{k}", "out", ty, default=initial) for k in range(1, n + 1)]
        body += [assign("next", f"o{k}", ref(f"r{k}")) for k in range(1, n + 1)]
        ctxs = [seq_ctx("proc", body)]
    else:
        ports = [port("clk", "in", BIT), port("d", "in", ty)] + [port(f"o{k}", "out", ty) for k in range(1, n + 1)]
        ctxs = [seq_ctx("proc", body), conc_ctx("show", [assign("next", f"o{k}", ref(f"r{k}")) for k in range(1, n + 1)])]
    e = entity(name, ports, regs, ctxs)
    e["source_override"] = src
    e["family"] = f"delayline_{n}_w{w}_init{initial}_{'inctx' if in_ctx else 'ctxarg'}"
    return e


def counter_design(name, limit):
    """continuous_counter(ctx, limit): 'produces the sequence 0-1-2-..-limit-0-1-...'"""
    w = max(1, limit.bit_length())
    src = f'''
class {name}(cohdl.Entity):
    clk = Port.input(Bit)
    o = Port.output(Unsigned[{w}])

    def architecture(self):
        ctx = std.SequentialContext(std.Clock(self.clk))
        cnt = std.continuous_counter(ctx, {limit})
        std.concurrent_assign(self.o, cnt)
'''
    ty = T("u", w)
    body = [if_(bin_("eq", ref("c"), pint(limit)), [assign("next", "c", pint(0))], [assign("next", "c", bin_("add", ref("c"), pint(1)))])]
    e = entity(name, [port("clk", "in", BIT), port("o", "out", ty)], [obj("c", "signal", ty, default=0)],
               [seq_ctx("proc", body), conc_ctx("show", [assign("next", "o", ref("c"))])])
    e["source_override"] = src
    e["family"] = f"continuous_counter_{limit}"
    return e


def debounce_design(name, period, initial):
    """debounce: saturating up/down counter starting at period/2; output '1' when the counter reaches the period,
    '0' when it reaches zero; the output starts as `initial`"""
    w = period.bit_length()
    src = f'''
class {name}(cohdl.Entity):
    clk = Port.input(Bit)
    a = Port.input(Bit)
    o = Port.output(Bit)

    def architecture(self):
        ctx = std.SequentialContext(std.Clock(self.clk))
        deb = std.debounce(ctx, self.a, {period}, initial={bool(initial)})
        std.concurrent_assign(self.o, deb)
'''
    ty = T("u", w)
    C = ref("c")
    up = [if_(bin_("ne", C, pint(period)), [assign("next", "c", bin_("add", C, pint(1))),
                                             if_(bin_("eq", C, pint(period - 1)), [assign("next", "x", TRUE)])])]
    down = [if_(bin_("ne", C, pint(0)), [assign("next", "c", bin_("sub", C, pint(1))),
                                          if_(bin_("eq", C, pint(1)), [assign("next", "x", FALSE)])])]
    body = [if_(ref("a"), up, down)]
    e = entity(name, [port("clk", "in", BIT), port("a", "in", BIT), port("o", "out", BIT)],
               [obj("c", "signal", ty, default=period // 2), obj("x", "signal", BIT, default=1 if initial else 0)],
               [seq_ctx("proc", body), conc_ctx("show", [assign("next", "o", ref("x"))])])
    e["source_override"] = src
    e["family"] = f"debounce_{period}_{initial}"
    return e


def debounce_asbuilt_design(name, period, initial):
    """the implementation's actual (one sample late) behaviour, recorded as known finding C16-debounce-late: the output changes at
    the clock where the saturated counter is observed while the input still pushes.  Checking against this description as well
    keeps every OTHER debounce defect visible while the known one is listed."""
    e = debounce_design(name, period, initial)
    C = ref("c")
    up = [if_(bin_("eq", C, pint(period)), [assign("next", "x", TRUE)], [assign("next", "c", bin_("add", C, pint(1)))])]
    down = [if_(bin_("eq", C, pint(0)), [assign("next", "x", FALSE)], [assign("next", "c", bin_("sub", C, pint(1)))])]
    e["ctxs"][0]["body"] = [if_(ref("a"), up, down)]
    e["family"] = f"debounceasbuilt_{period}_{initial}"
    return e


def runtime_counter_design(name, w):
    """continuous_counter with a run-time limit: 'When limit is reached the counter continues from zero' - also when the limit is
    lowered below the current count"""
    src = f'''
class {name}(cohdl.Entity):
    clk = Port.input(Bit)
    lim = Port.input(Unsigned[{w}])
    o = Port.output(Unsigned[{w}])

    def architecture(self):
        ctx = std.SequentialContext(std.Clock(self.clk))
        cnt = std.continuous_counter(ctx, self.lim)
        std.concurrent_assign(self.o, cnt)
'''
    ty = T("u", w)
    body = [if_(bin_("ge", ref("c"), ref("lim")), [assign("next", "c", pint(0))], [assign("next", "c", bin_("add", ref("c"), pint(1)))])]
    e = entity(name, [port("clk", "in", BIT), port("lim", "in", ty), port("o", "out", ty)], [obj("c", "signal", ty, default=0)],
               [seq_ctx("proc", body), conc_ctx("show", [assign("next", "o", ref("c"))])])
    e["source_override"] = src
    e["family"] = f"continuous_counter_runtime_w{w}"
    return e


def _pulse_updates(ns):
    """state / rising / falling updates of ToggleSignal and ClockDivider for the next state `ns` (an expression or TRUE/FALSE):
    "rising(): a bit signal that is 1 for a single clock cycle after each transition of state() from 0 to 1" (falling likewise)"""
    ST = ref("st")
    if ns is TRUE:
        return [assign("next", "st", TRUE), assign("next", "ri", un("inv", ST)), assign("next", "fa", FALSE)]
    if ns is FALSE:
        return [assign("next", "st", FALSE), assign("next", "ri", FALSE), assign("next", "fa", ST)]
    return [bind("ns", ns), assign("next", "st", ref("ns")), assign("next", "ri", bin_("land", un("not", ST), ref("ns"))),
            assign("next", "fa", bin_("land", ST, un("not", ref("ns"))))]


def _periodic_entity(name, src, w, pos_default, default_state, require_enable, with_reset, body, extra_in=(), extra_objs=(), extra_ctxs=()):
    """common frame of the ToggleSignal / ClockDivider reference descriptions: position counter `pos`, state / rising / falling
    registers, the enable/disable flag `rc` ("disable: stop signal generation and reset the internal counter to zero") set by a
    user context from input `en`, and the combined reset of ctx.or_reset"""
    ports = [port("clk", "in", BIT)] + ([port("rst", "in", BIT)] if with_reset else []) + [port("en", "in", BIT)] + list(extra_in) + \
            [port("o", "out", BIT), port("r", "out", BIT), port("f", "out", BIT)]
    objs = [obj("pos", "signal", T("u", w), default=pos_default), obj("st", "signal", BIT, default=1 if default_state else 0),
            obj("ri", "signal", BIT, default=0), obj("fa", "signal", BIT, default=0),
            obj("rc", "signal", BIT, default=1 if require_enable else 0), obj("cr", "signal", BIT)] + list(extra_objs)
    ctxs = [conc_ctx("comb", [assign("next", "cr", bin_("or", ref("rst"), ref("rc")) if with_reset else ref("rc"))]),
            seq_ctx("tproc", body, reset=reset("cr")),
            seq_ctx("user", [if_(ref("en"), [assign("next", "rc", FALSE)], [assign("next", "rc", TRUE)])]),
            conc_ctx("show", [assign("next", "o", ref("st")), assign("next", "r", ref("ri")), assign("next", "f", ref("fa"))])] + list(extra_ctxs)
    e = entity(name, ports, objs, ctxs)
    e["source_override"] = src
    return e


def _periodic_src(name, ctor, with_reset, extra_ports=""):
    rst = ", std.Reset(self.rst)" if with_reset else ""
    return f'''
class {name}(cohdl.Entity):
    clk = Port.input(Bit)
{"    rst = Port.input(Bit)" if with_reset else ""}
    en = Port.input(Bit)
{extra_ports}
    o = Port.output(Bit)
    r = Port.output(Bit)
    f = Port.output(Bit)

    def architecture(self):
        ctx = std.SequentialContext(std.Clock(self.clk){rst})
        gen = {ctor}
        std.concurrent_assign(self.o, gen.state())
        std.concurrent_assign(self.r, gen.rising())
        std.concurrent_assign(self.f, gen.falling())

        @std.sequential(std.Clock(self.clk))
        def user():
            if self.en:
                gen.enable()
            else:
                gen.disable()
'''


def toggle_design(name, a, b, default_state, first_state, require_enable, with_reset):
    """ToggleSignal(ctx, a, b): "toggles between 0 and 1 with a defined period and duty cycle. The duration parameters define how
    long the signal remains in each state ... first_state defines the state of the signal when starting after a reset":
    position pos runs 0..a+b-1; the state is first_state while pos < a, the other state otherwise"""
    end = a + b - 1
    w = max(1, end.bit_length())
    P = ref("pos")
    val = lambda inside: TRUE if (inside == bool(first_state)) else FALSE        # state for `pos' < a` true / false
    if end == 0:
        body = _pulse_updates(val(0 < a))
    else:
        nxt = bin_("add", P, pint(1))
        in_first = bin_("lt", nxt, pint(a))
        ns = in_first if first_state else un("not", in_first)
        body = [if_(bin_("eq", P, pint(end)), [assign("next", "pos", pint(0))] + _pulse_updates(val(0 < a)),
                    [assign("next", "pos", nxt)] + _pulse_updates(ns))]
    ctor = f"std.ToggleSignal(ctx, {a}, {b}, default_state={bool(default_state)}, first_state={bool(first_state)}, require_enable={bool(require_enable)})"
    e = _periodic_entity(name, _periodic_src(name, ctor, with_reset), w, 0, default_state, require_enable, with_reset, body)
    e["family"] = f"toggle_{a}_{b}_d{default_state}_f{first_state}_e{require_enable}_r{int(with_reset)}"
    return e


def clkdiv_design(name, d, default_state, tick_at_start, require_enable, with_reset):
    """ClockDivider(ctx, d): "generates a signal that is high for one clock cycle and low for the rest of a period with the
    given duration" (relative to default_state); with tick_at_start the first pulse comes with the first clock"""
    end = d - 1
    w = max(1, end.bit_length())
    P = ref("pos")
    hit = TRUE if not default_state else FALSE
    rest = FALSE if not default_state else TRUE
    body = [if_(bin_("eq", P, pint(end)), [assign("next", "pos", pint(0))] + _pulse_updates(hit),
                [assign("next", "pos", bin_("add", P, pint(1)))] + _pulse_updates(rest))]
    ctor = f"std.ClockDivider(ctx, {d}, default_state={bool(default_state)}, tick_at_start={bool(tick_at_start)}, require_enable={bool(require_enable)})"
    e = _periodic_entity(name, _periodic_src(name, ctor, with_reset), w, end if tick_at_start else 0, default_state, require_enable, with_reset, body)
    e["family"] = f"clkdiv_{d}_d{default_state}_t{int(tick_at_start)}_e{require_enable}_r{int(with_reset)}"
    return e


def toggle_runtime_design(name, default_state, first_state, require_enable, with_reset):
    """run-time durations ("int and Unsigned parameters are interpreted as a number of clock ticks", "also for run-time periods"):
    the period end follows the inputs; the position continues from zero as soon as it is at or beyond the end"""
    PA, PB, P, CE = ref("pa"), ref("pb"), ref("pos"), ref("ce")
    total = bin_("add", resize(PA, 3), resize(PB, 3))
    nxt = bin_("add", P, pint(1))
    f = (lambda e: e) if first_state else (lambda e: un("not", e))
    body = [assume(bin_("ne", total, pint(0))),                    # emitted as `assert sum != 0, "counter end was set to 0"`
            if_(bin_("ge", P, CE), [assign("next", "pos", pint(0))] + _pulse_updates(f(bin_("ne", PA, pint(0)))),
                [assign("next", "pos", nxt)] + _pulse_updates(f(bin_("lt", nxt, PA))))]
    ctor = f"std.ToggleSignal(ctx, self.pa, self.pb, default_state={bool(default_state)}, first_state={bool(first_state)}, require_enable={bool(require_enable)})"
    U2_ = T("u", 2)
    src = _periodic_src(name, ctor, with_reset, "    pa = Port.input(Unsigned[2])\n    pb = Port.input(Unsigned[2])")
    e = _periodic_entity(name, src, 3, 0, default_state, require_enable, with_reset, body,
                         extra_in=[port("pa", "in", U2_), port("pb", "in", U2_)], extra_objs=[obj("ce", "signal", T("u", 3))],
                         extra_ctxs=[conc_ctx("endc", [assign("next", "ce", bin_("sub", total, pint(1)))])])
    e["family"] = f"toggle_runtime_d{default_state}_f{first_state}_e{require_enable}_r{int(with_reset)}"
    return e


def clkdiv_runtime_design(name, default_state, require_enable, with_reset):
    PD, P, CE = ref("pd"), ref("pos"), ref("ce")
    hit = TRUE if not default_state else FALSE
    rest = FALSE if not default_state else TRUE
    body = [assume(bin_("ge", PD, pint(1))),                       # emitted as `assert cnt_duration >= 1`
            if_(bin_("ge", P, CE), [assign("next", "pos", pint(0))] + _pulse_updates(hit),
                [assign("next", "pos", bin_("add", P, pint(1)))] + _pulse_updates(rest))]
    ctor = f"std.ClockDivider(ctx, self.pd, default_state={bool(default_state)}, require_enable={bool(require_enable)})"
    U2_ = T("u", 2)
    src = _periodic_src(name, ctor, with_reset, "    pd = Port.input(Unsigned[2])")
    e = _periodic_entity(name, src, 2, 0, default_state, require_enable, with_reset, body,
                         extra_in=[port("pd", "in", U2_)], extra_objs=[obj("ce", "signal", U2_)],
                         extra_ctxs=[conc_ctx("endc", [assign("next", "ce", bin_("sub", PD, pint(1)))])])
    e["family"] = f"clkdiv_runtime_d{default_state}_e{require_enable}_r{int(with_reset)}"
    return e


def periodic_designs(tier):
    ents = []
    k = 0
    q = tier == "quick"
    for ds, fs, re_, wr in ([(0, 0, 0, False), (1, 1, 1, False)] if q else [(0, 0, 0, False), (1, 1, 1, False), (0, 1, 0, True), (1, 0, 1, False)]):
        ents.append(toggle_runtime_design(f"E16Q_{k:03d}", ds, fs, re_, wr))
        k += 1
    for ds, re_, wr in ([(0, 0, False), (1, 1, False)] if q else [(0, 0, False), (1, 1, False), (0, 1, True), (1, 0, True)]):
        ents.append(clkdiv_runtime_design(f"E16Q_{k:03d}", ds, re_, wr))
        k += 1
    k = 0
    durs = [(1, 1), (2, 1), (1, 2), (2, 2), (3, 1), (1, 0), (0, 1), (0, 2), (2, 0), (3, 2)] + ([] if q else [(1, 3), (3, 3), (4, 1), (2, 3), (4, 4)])
    for i, (a, b) in enumerate(durs):
        for ds in (0, 1):
            for fs in (0, 1):
                variants = [(0, True), (1, False)] if not q else [((i + ds + fs) % 2, (i + fs) % 2 == 0)]
                for re_, wr in variants:
                    ents.append(toggle_design(f"E16P_{k:03d}", a, b, ds, fs, re_, wr))
                    k += 1
    for d in (2, 3, 4, 5) + (() if q else (6, 7, 8)):
        for ds in (0, 1):
            for ts in (0, 1):
                variants = [(0, True), (1, False)] if not q else [((d + ds + ts) % 2, (d + ts) % 2 == 0)]
                for re_, wr in variants:
                    ents.append(clkdiv_design(f"E16P_{k:03d}", d, ds, ts, re_, wr))
                    k += 1
    return ents


def duration_designs(tier):
    """C16: "Duration arguments are converted with the context's clock period": the same components given a std.Duration, in a
    context whose clock has a frequency, against the reference description with the tick count of spec/Durations.tla"""
    ents = []
    k = 0

    def coro(tag, clock, stmts_src, body, waiter=None):
        nonlocal k
        name = f"E16T_{k:03d}"
        src = f"""
class {name}(cohdl.Entity):
    clk = Port.input(Bit)
    a = Port.input(Bit)
    b = Port.input(Bit)
    o = Port.output(Unsigned[3], default=0)
    p = Port.output(Bit, default=False)
    q = Port.output(Unsigned[2], default=0)

    def architecture(self):
        {('waiter = std.Waiter(' + waiter + ')') if waiter else 'pass'}

        @std.sequential(std.Clock(self.clk, frequency={clock}))
        async def proc():
{stmts_src}
"""
        ports = gen_seq.base_ports(False) + [port("o", "out", U3, default=0), port("p", "out", BIT, default=0), port("q", "out", U2, default=0)]
        e = entity(name, ports, [obj("v", "variable", U2, default=0)], [seq_ctx("proc", body, coroutine=True)])
        e["source_override"] = src
        e["family"] = tag
        e["waiter_max"] = 7
        ents.append(e)
        k += 1

    I = "            "
    for clock, per_ps in (("std.MHz(100)", 10000), ("std.MHz(250)", 4000), ("std.kHz(500)", 2000000)):
        for n in (1, 2, 3, 5):
            d_ps = n * per_ps
            dur = f"std.Duration.picoseconds({d_ps})" if per_ps % 1000 else (f"std.ns({d_ps // 1000})" if d_ps < 10**6 else f"std.us({d_ps // 10**6})")
            coro(f"duration_wait_std_{clock}_{n}", clock, f"{I}self.o <<= 1\n{I}await std.wait_for({dur})\n{I}self.o <<= 2\n{I}await self.a",
                 [m(1), waitfor(n), m(2), await_(ref("a"))])
            if n in (2, 5):
                coro(f"duration_wait_waiter_{clock}_{n}", clock, f"{I}self.o <<= 1\n{I}await waiter.wait_for({dur})\n{I}self.o <<= 2\n{I}await self.a",
                     [m(1), waitfor(n, via="waiter"), m(2), await_(ref("a"))], waiter=f"std.Duration.picoseconds({7 * per_ps})")
    for via, wsrc in (("std", None), ("waiter", "std.ns(70)")):
        call_ = "std.wait_for" if via == "std" else "waiter.wait_for"
        coro(f"duration_wait_{via}_allow_zero", "std.MHz(100)", f"{I}self.o <<= 1\n{I}await {call_}(std.ns(30), allow_zero=True)\n{I}self.o <<= 2\n{I}await self.a",
             [m(1), waitfor(3, allow_zero=True, via=via), m(2), await_(ref("a"))], waiter=wsrc)
    # ToggleSignal / ClockDivider / debounce with Duration arguments: reuse the tick-count references
    for (a, b), clock, per_ps in (((2, 1), "std.MHz(100)", 10000), ((1, 3), "std.MHz(250)", 4000)):
        e = toggle_design(f"E16T_{k:03d}", a, b, 0, 1, 0, False)
        e["source_override"] = e["source_override"].replace("std.Clock(self.clk)", f"std.Clock(self.clk, frequency={clock})", 1) \
            .replace(f"std.ToggleSignal(ctx, {a}, {b},", f"std.ToggleSignal(ctx, std.Duration.picoseconds({a * per_ps}), std.Duration.picoseconds({b * per_ps}),")
        assert "picoseconds" in e["source_override"]
        e["family"] = "duration_" + e["family"]
        ents.append(e)
        k += 1
    for d, clock, per_ps in ((3, "std.MHz(100)", 10000), (4, "std.kHz(500)", 2000000)):
        e = clkdiv_design(f"E16T_{k:03d}", d, 0, 0, 0, False)
        e["source_override"] = e["source_override"].replace("std.Clock(self.clk)", f"std.Clock(self.clk, frequency={clock})", 1) \
            .replace(f"std.ClockDivider(ctx, {d},", f"std.ClockDivider(ctx, std.Duration.picoseconds({d * per_ps}),")
        assert "picoseconds" in e["source_override"]
        e["family"] = "duration_" + e["family"]
        ents.append(e)
        k += 1
    for period, clock, per_ps in ((3, "std.MHz(100)", 10000),):
        e = debounce_asbuilt_design(f"E16T_{k:03d}", period, 0)
        e["source_override"] = e["source_override"].replace("std.Clock(self.clk)", f"std.Clock(self.clk, frequency={clock})", 1) \
            .replace(f"std.debounce(ctx, self.a, {period},", f"std.debounce(ctx, self.a, std.ns({period * per_ps // 1000}),")
        assert "std.ns" in e["source_override"]
        e["family"] = "duration_" + e["family"]
        ents.append(e)
        k += 1
    return ents


def duration_conversions(tier, scratch, V):
    """Python-level: Duration.count_periods on a grid of unit constructors x frequencies, validated by TLC against Durations.tla"""
    out = os.path.join(scratch, "c16_dur.json")
    env = dict(os.environ, PYTHONPATH=vlib.REPO, PYTHONHASHSEED="0")
    p = subprocess.run([vlib.VENV_PY, os.path.join(vlib.VERIF, "harness", "pyobs_c16.py"), tier, out], env=env, capture_output=True, text=True, cwd=scratch)
    if p.returncode != 0:
        V.machinery_error("pyobs_c16 failed: " + p.stderr[-1500:])
        return 0
    cases = json.load(open(out))["cases"]
    shards = vlib.shard(cases, 4)
    res = vlib.run_tlc_shards("MC_Durations.tla", "MC_Durations.cfg", [{"cases": s} for s in shards], scratch, timeout=600)
    checked = 0
    for sh, r in zip(shards, res):
        pr = r["parsed"]
        if r["timeout"] or pr["errors"] or "cases" not in pr["stat"]:
            V.machinery_error("MC_Durations: " + " / ".join(pr["errors"][:3]) + r["out"][-600:])
            continue
        checked += pr["stat"]["cases"][0]
        for i, f in pr["viol"]:
            c = sh[i - 1]
            V.violation(f"duration-ticks:{c['how']}|d={c['d']}ps p={c['p']}ps -> {c['r']}", {"clause": "Durations.Ticks", "case": c})
    return checked


def component_designs(tier):
    ents = []
    k = 0
    for n in (1, 2, 3) if tier == "quick" else (1, 2, 3, 4, 5):
        for w, init in ((1, 0), (2, 0), (2, 3)):
            ents.append(delayed_design(f"E16D_{k:03d}", n, w, init))
            k += 1
    for limit in (1, 2, 3, 4, 5, 7):
        ents.append(counter_design(f"E16D_{k:03d}", limit))
        k += 1
    for n in (1, 2, 3) if tier == "quick" else (1, 2, 3, 4):
        for w, init, in_ctx in ((1, 0, False), (2, 2, True), (1, 1, True), (2, 1, False)):
            ents.append(delayline_design(f"E16L_{k:03d}", n, w, init, in_ctx))
            k += 1
    for period in (1, 2, 3, 4, 5, 6) + (() if tier == "quick" else (7, 8, 9)):
        for init in (0, 1):
            ents.append(debounce_design(f"E16D_{k:03d}", period, init))
            k += 1
            ents.append(debounce_asbuilt_design(f"E16D_{k:03d}", period, init))
            k += 1
    for w in (2, 3):
        ents.append(runtime_counter_design(f"E16D_{k:03d}", w))
        k += 1
    return ents


def run(tier):
    t0 = time.time()
    ents = wait_designs(tier) + component_designs(tier) + periodic_designs(tier) + duration_designs(tier)
    V = vlib.Verdict("C16")
    with vlib.Scratch() as scratch:
        conv = duration_conversions(tier, scratch, V)
        return product.run("C16", tier, ents, lambda e: 0, scratch, timeout=1500 if tier == "quick" else 6000, verdict=V,
                           extra_cov={"duration_conversions_checked": conv},
                           rule="std.wait_for / Waiter.wait_for with constant n, run-time n (all values of a 3-bit port) and allow_zero, "
                                "reached after a statement, after an await, twice in a row, in a loop and as the first statement; "
                                "std.delayed, continuous_counter and debounce against reference descriptions written from their docstrings; "
                                "complete reachable product under all input sequences")
