"""C16: std timing utilities are exact to the clock."""
import random, time
import vlib, product, gen_seq
from adl import *  # noqa

U2, U3 = T("u", 2), T("u", 3)
m = lambda k: assign("next", "o", pint(k))


def wait_designs(tier):
    ents = []
    k = 0

    def add(tag, body, extra_in=(), waiter_max=None):
        nonlocal k
        ports = gen_seq.base_ports(False, list(extra_in))
        ports += [port("o", "out", U3, default=0), port("p", "out", BIT, default=0), port("q", "out", U2, default=0)]
        e = entity(f"E16_{k:04d}", ports, [obj("v", "variable", U2, default=0)], [seq_ctx("proc", body, coroutine=True)])
        if waiter_max:
            e["waiter_max"] = waiter_max
        e["family"] = tag
        ents.append(e)
        k += 1

    A = ref("a")
    for via in ("std", "waiter"):
        for n in range(1, 6 if tier == "quick" else 9):
            # reached after a statement; two waits in sequence; inside a loop; after an await
            add(f"wait_{via}_mid_{n}", [m(1), waitfor(n, via=via), m(2)])
            add(f"wait_{via}_twice_{n}", [m(1), waitfor(n, via=via), m(2), waitfor(max(1, n - 1), via=via), m(3)])
            add(f"wait_{via}_after_await_{n}", [await_(A), m(1), waitfor(n, via=via), m(2)])
            add(f"wait_{via}_loop_{n}", [while_(TRUE, [assign("push", "p", TRUE), waitfor(n, via=via)])])
            # first statement of the process
            add(f"wait_{via}_first_{n}", [waitfor(n, via=via), m(1), await_(A), m(2)])
        # run-time duration (all values of a 3-bit input), with and without allow_zero
        add(f"wait_{via}_runtime", [m(1), await_(bin_("ne", ref("n"), pint(0))), waitfor(ref("n"), via=via), m(2)], [("n", U3)], 7)
        add(f"wait_{via}_runtime_zero", [m(1), waitfor(ref("n"), allow_zero=True, via=via), m(2), await_(A)], [("n", U3)], 7)
        add(f"wait_{via}_const_zero", [m(1), waitfor(0, allow_zero=True, via=via), m(2), await_(A), m(3)])
    return ents


# ---- library components against reference descriptions written from their docstrings
HEADER = '''from __future__ import annotations
import cohdl
from cohdl import Bit, BitVector, Unsigned, Signed, Port, Signal, Variable, Null, Full
from cohdl import std
'''


def delayed_design(name, n, w, initial):
    """C16: "std.delayed(x,n) reproduces x exactly n steps later starting from the given initial values": the returned
    signal is x delayed by n steps; it is shown here through one more register (`o <<= ...` in the same context)"""
    src = f'''
class {name}(cohdl.Entity):
    clk = Port.input(Bit)
    d = Port.input(Unsigned[{w}])
    o = Port.output(Unsigned[{w}], default={initial})

    def architecture(self):
        @std.sequential(std.Clock(self.clk))
        def proc():
            self.o <<= std.delayed(self.d, {n}, {initial})
'''
    ty = T("u", w)
    regs = [obj(f"r{i}", "signal", ty, default=initial) for i in range(1, n + 1)]
    chain = ["d"] + [f"r{i}" for i in range(1, n + 1)] + ["o"]
    body = [assign("next", chain[i + 1], ref(chain[i])) for i in range(n + 1)]
    e = entity(name, [port("clk", "in", BIT), port("d", "in", ty), port("o", "out", ty, default=initial)], regs, [seq_ctx("proc", body)])
    e["source_override"] = src
    e["family"] = f"delayed_{n}_w{w}_init{initial}"
    return e


def counter_design(name, limit):
    """continuous_counter(ctx, limit): 'produces the sequence 0-1-2-..-limit-0-1-...'"""
    w = max(1, limit.bit_length())
    src = f'''
class {name}(cohdl.Entity):
    clk = Port.input(Bit)
    o = Port.output(Unsigned[{w}])

    def architecture(self):
        ctx = std.SequentialContext(std.Clock(self.clk))
        cnt = std.continuous_counter(ctx, {limit})
        std.concurrent_assign(self.o, cnt)
'''
    ty = T("u", w)
    body = [if_(bin_("eq", ref("c"), pint(limit)), [assign("next", "c", pint(0))], [assign("next", "c", bin_("add", ref("c"), pint(1)))])]
    e = entity(name, [port("clk", "in", BIT), port("o", "out", ty)], [obj("c", "signal", ty, default=0)],
               [seq_ctx("proc", body), conc_ctx("show", [assign("next", "o", ref("c"))])])
    e["source_override"] = src
    e["family"] = f"continuous_counter_{limit}"
    return e


def debounce_design(name, period, initial):
    """debounce: saturating up/down counter starting at period/2; output '1' when the counter reaches the period,
    '0' when it reaches zero; the output starts as `initial`"""
    w = period.bit_length()
    src = f'''
class {name}(cohdl.Entity):
    clk = Port.input(Bit)
    a = Port.input(Bit)
    o = Port.output(Bit)

    def architecture(self):
        ctx = std.SequentialContext(std.Clock(self.clk))
        deb = std.debounce(ctx, self.a, {period}, initial={bool(initial)})
        std.concurrent_assign(self.o, deb)
'''
    ty = T("u", w)
    C = ref("c")
    up = [if_(bin_("ne", C, pint(period)), [assign("next", "c", bin_("add", C, pint(1))),
                                             if_(bin_("eq", C, pint(period - 1)), [assign("next", "x", TRUE)])])]
    down = [if_(bin_("ne", C, pint(0)), [assign("next", "c", bin_("sub", C, pint(1))),
                                          if_(bin_("eq", C, pint(1)), [assign("next", "x", FALSE)])])]
    body = [if_(ref("a"), up, down)]
    e = entity(name, [port("clk", "in", BIT), port("a", "in", BIT), port("o", "out", BIT)],
               [obj("c", "signal", ty, default=period // 2), obj("x", "signal", BIT, default=1 if initial else 0)],
               [seq_ctx("proc", body), conc_ctx("show", [assign("next", "o", ref("x"))])])
    e["source_override"] = src
    e["family"] = f"debounce_{period}_{initial}"
    return e


def debounce_asbuilt_design(name, period, initial):
    """the implementation's actual (one sample late) behaviour, recorded as known finding C16-debounce-late: the output changes at
    the clock where the saturated counter is observed while the input still pushes.  Checking against this description as well
    keeps every OTHER debounce defect visible while the known one is listed."""
    e = debounce_design(name, period, initial)
    C = ref("c")
    up = [if_(bin_("eq", C, pint(period)), [assign("next", "x", TRUE)], [assign("next", "c", bin_("add", C, pint(1)))])]
    down = [if_(bin_("eq", C, pint(0)), [assign("next", "x", FALSE)], [assign("next", "c", bin_("sub", C, pint(1)))])]
    e["ctxs"][0]["body"] = [if_(ref("a"), up, down)]
    e["family"] = f"debounceasbuilt_{period}_{initial}"
    return e


def runtime_counter_design(name, w):
    """continuous_counter with a run-time limit: 'When limit is reached the counter continues from zero' - also when the limit is
    lowered below the current count"""
    src = f'''
class {name}(cohdl.Entity):
    clk = Port.input(Bit)
    lim = Port.input(Unsigned[{w}])
    o = Port.output(Unsigned[{w}])

    def architecture(self):
        ctx = std.SequentialContext(std.Clock(self.clk))
        cnt = std.continuous_counter(ctx, self.lim)
        std.concurrent_assign(self.o, cnt)
'''
    ty = T("u", w)
    body = [if_(bin_("ge", ref("c"), ref("lim")), [assign("next", "c", pint(0))], [assign("next", "c", bin_("add", ref("c"), pint(1)))])]
    e = entity(name, [port("clk", "in", BIT), port("lim", "in", ty), port("o", "out", ty)], [obj("c", "signal", ty, default=0)],
               [seq_ctx("proc", body), conc_ctx("show", [assign("next", "o", ref("c"))])])
    e["source_override"] = src
    e["family"] = f"continuous_counter_runtime_w{w}"
    return e


def component_designs(tier):
    ents = []
    k = 0
    for n in (1, 2, 3) if tier == "quick" else (1, 2, 3, 4, 5):
        for w, init in ((1, 0), (2, 0), (2, 3)):
            ents.append(delayed_design(f"E16D_{k:03d}", n, w, init))
            k += 1
    for limit in (1, 2, 3, 4, 5, 7):
        ents.append(counter_design(f"E16D_{k:03d}", limit))
        k += 1
    for period in (1, 2, 3, 4, 5, 6) + (() if tier == "quick" else (7, 8, 9)):
        for init in (0, 1):
            ents.append(debounce_design(f"E16D_{k:03d}", period, init))
            k += 1
            ents.append(debounce_asbuilt_design(f"E16D_{k:03d}", period, init))
            k += 1
    for w in (2, 3):
        ents.append(runtime_counter_design(f"E16D_{k:03d}", w))
        k += 1
    return ents


def run(tier):
    ents = wait_designs(tier) + component_designs(tier)
    with vlib.Scratch() as scratch:
        return product.run("C16", tier, ents, lambda e: 0, scratch, timeout=1500 if tier == "quick" else 6000,
                           rule="std.wait_for / Waiter.wait_for with constant n, run-time n (all values of a 3-bit port) and allow_zero, "
                                "reached after a statement, after an await, twice in a row, in a loop and as the first statement; "
                                "std.delayed, continuous_counter and debounce against reference descriptions written from their docstrings; "
                                "complete reachable product under all input sequences")
