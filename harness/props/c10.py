"""C10: the compile-time Python subset evaluates exactly like CPython (call binding + operator dispatch)."""
import os, json, time, re, subprocess, random, collections
import concurrent.futures as cf
import vlib


def tlc_cases(scratch):
    md = os.path.join(scratch, "cb")
    os.makedirs(md, exist_ok=True)
    cmd = ["java", "-XX:+UseParallelGC", "-Xmx6g", f"-DTLA-Library={vlib.SPEC}:{os.path.join(vlib.SPEC, 'mc')}", "-cp", vlib.TLA_CP,
           "tlc2.TLC", "-workers", "1", "-metadir", os.path.join(md, "meta"), "-noGenerateSpecTE",
           "-config", os.path.join(vlib.SPEC, "mc", "MC_CallBinding.cfg"), os.path.join(vlib.SPEC, "mc", "MC_CallBinding.tla")]
    p = subprocess.run(cmd, capture_output=True, text=True, timeout=1800, cwd=md)
    out = p.stdout + p.stderr
    cases = [json.loads(json.loads('"' + m.group(1) + '"')) for m in re.finditer(r'<<"CASE", "((?:[^"\\]|\\.)*)">>', out)]
    return cases, "No error has been found" in out, out


def shape(c):
    s, k = c["sig"], c["call"]
    return (len(s["po"]), tuple(p["d"] for p in s["pk"]), tuple(p["d"] for p in s["ko"]), s["va"], s["vk"],
            c["res"]["ok"], c["res"].get("why", ""), k["star"] >= 0, bool(k["dstar"]), len(k["kw"]))


def class_part(tier, scratch, V):
    """ClassModel.tla: every hierarchy over four classes x member definitions (TLC), validated against CPython (consistency of
    the hierarchy, method resolution order, lookup result) and replayed into the tracer through a method, a property and
    __call__ with cooperative super() calls"""
    md = os.path.join(scratch, "cls")
    os.makedirs(os.path.join(md, "meta"), exist_ok=True)
    cmd = ["java", "-XX:+UseParallelGC", "-Xss64m", "-Xmx2g", f"-DTLA-Library={vlib.SPEC}:{os.path.join(vlib.SPEC, 'mc')}", "-cp", vlib.TLA_CP,
           "tlc2.TLC", "-workers", "1", "-metadir", os.path.join(md, "meta"), "-noGenerateSpecTE",
           "-config", os.path.join(vlib.SPEC, "mc", "MC_ClassModel.cfg"), os.path.join(vlib.SPEC, "mc", "MC_ClassModel.tla")]
    p = subprocess.run(cmd, capture_output=True, text=True, timeout=900, cwd=md)
    hs = [json.loads(json.loads('"' + m.group(1) + '"')) for m in re.finditer(r'<<"CASE", "((?:[^"\\]|\\.)*)">>', p.stdout + p.stderr)]
    if not hs:
        V.machinery_error("ClassModel spec run failed: " + (p.stdout + p.stderr)[-400:])
        return {}
    hs.sort(key=lambda h: json.dumps(h, sort_keys=True))
    cases = []
    kinds = ("method", "property", "call")
    for i, h in enumerate(hs):
        for j, kind in enumerate(kinds):
            if tier == "quick" and (i + j) % 3:
                continue
            cases.append(dict(h, id=len(cases), kind=kind))

    def one(args):
        j, cs = args
        wd = os.path.join(md, f"w{j}")
        os.makedirs(wd, exist_ok=True)
        json.dump(cs, open(os.path.join(wd, "cases.json"), "w"))
        env = dict(os.environ, PYTHONPATH=vlib.REPO, PYTHONHASHSEED="0")
        q = subprocess.run([vlib.VENV_PY, os.path.join(vlib.VERIF, "harness", "pyobs_c10_classes.py"), os.path.join(wd, "cases.json"), wd,
                            os.path.join(wd, "out.json")], env=env, capture_output=True, text=True, cwd=wd)
        return {"error": q.stderr[-1200:]} if q.returncode != 0 else json.load(open(os.path.join(wd, "out.json")))

    checked = rejected = cpy = 0
    with cf.ThreadPoolExecutor(vlib.NCPU) as ex:
        for r in ex.map(one, list(enumerate(vlib.shard(cases, vlib.NCPU)))):
            if "error" in r:
                V.machinery_error("pyobs_c10_classes: " + r["error"])
                continue
            checked += r["checked"]
            rejected += r["rejected_valid"]
            cpy += r["cpython_checked"]
            if r["n_spec_vs_cpython"]:
                V.machinery_error("ClassModel.tla disagrees with CPython: " + json.dumps(r["spec_vs_cpython"][:2]))
            for f in r["tracer"]:
                hh = "/".join("".join("ABCD"[b - 1] for b in c["bases"]) + ":" + c["def"] for c in f["h"])
                V.violation(f"class-lookup:{f['kind']}:{f['clause']}|{hh}: CPython {f.get('cpython')!r}, tracer {f['tracer']!r}", f)
    return {"class_hierarchies": len(hs), "class_cases_cpython_validated": cpy, "class_cases_traced": checked, "class_cases_rejected_by_tracer": rejected}


def eval_part(tier, scratch, V):
    """constant expressions (displays with starred elements, subscripts, slices, comprehensions, chained comparisons,
    and/or/not, if-expressions, closures applied at once, isinstance, len/min/max/abs/...): PyEval.tla evaluates every
    generated program in both modes; mode "cpython" is validated against CPython itself on EVERY program, mode "cohdl"
    (and/or yield the truth value) is what the tracer's value is compared with."""
    import gen_py
    n = 1500 if tier == "quick" else 12000
    progs = gen_py.programs(n, vlib.seed() + 1010)
    wd = os.path.join(scratch, "pyeval")
    os.makedirs(wd, exist_ok=True)
    srcs = {p["id"]: gen_py.to_py(p["e"]) for p in progs}
    envsrc = [[a, gen_py.to_py(e)] for a, e in gen_py.ENV]

    def obs_one(args):
        j, chunk = args
        w = os.path.join(wd, f"w{j}")
        os.makedirs(w, exist_ok=True)
        json.dump({"env": envsrc, "programs": [{"id": p["id"], "src": srcs[p["id"]]} for p in chunk]}, open(os.path.join(w, "job.json"), "w"))
        env = dict(os.environ, PYTHONPATH=vlib.REPO, PYTHONHASHSEED="0")
        q = subprocess.run([vlib.VENV_PY, os.path.join(vlib.VERIF, "harness", "pyobs_c10_eval.py"), os.path.join(w, "job.json"), w, os.path.join(w, "out.json")],
                           env=env, capture_output=True, text=True, cwd=w)
        return {"error": q.stderr[-1200:]} if q.returncode != 0 else json.load(open(os.path.join(w, "out.json")))

    cpy, tracer = {}, {}
    with cf.ThreadPoolExecutor(vlib.NCPU) as ex:
        for r in ex.map(obs_one, list(enumerate(vlib.shard(progs, vlib.NCPU)))):
            if "error" in r:
                V.machinery_error("pyobs_c10_eval: " + r["error"])
                continue
            cpy.update(r["cpython"])
            tracer.update(r["tracer"])
    envrec = [{"n": a, "e": e} for a, e in gen_py.ENV]
    res = vlib.run_tlc_shards("MC_PyEval.tla", "MC_PyEval.cfg", [{"env": envrec, "programs": s} for s in vlib.shard(progs, vlib.NCPU)], scratch, timeout=1500)
    stats = collections.Counter()
    for r in res:
        pr = r["parsed"]
        if r["timeout"] or pr["errors"] or "programs" not in pr["stat"]:
            V.machinery_error("MC_PyEval: " + " / ".join(pr["errors"][:3]) + r["out"][-600:])
            continue
        for pid, (a, b) in pr["case"].items():
            a, b = json.loads(a), json.loads(b)
            c, t = cpy.get(str(pid)), tracer.get(str(pid))
            if c is None or t is None:
                continue
            if a["t"] == "err" and (str(a["v"]).startswith("unsupported") or str(a["v"]).startswith("spec:")):
                stats["outside_the_specified_subset"] += 1
                continue
            stats["cpython_validated"] += 1
            if a != c:
                V.machinery_error(f"PyEval.tla disagrees with CPython on {srcs[pid]}: spec {a} cpython {c}")
                continue
            stats["traced"] += 1
            if t["t"] == "rejected":
                stats["rejected_by_tracer" if a["t"] != "err" else "raises_in_both"] += 1      # "... or is rejected with an error"
            elif b["t"] == "err":
                V.violation(f"constant-evaluation:value-where-cpython-raises|{srcs[pid]}: CPython raises {b['v']}, tracer {t}",
                            {"clause": "PyEval", "source": srcs[pid], "cpython": c, "tracer": t})
            elif t != b:
                kind = "and-or-operand" if a != b else "value"
                V.violation(f"constant-evaluation:{kind}|{srcs[pid]}: specified {b}, tracer {t}",
                            {"clause": "PyEval", "source": srcs[pid], "specified": b, "cpython": c, "tracer": t})
            else:
                stats["agree"] += 1
    return {"constant_expressions": n, "constant_expressions_cpython_validated": stats["cpython_validated"], "constant_expressions_traced": stats["traced"],
            "constant_expressions_agree": stats["agree"], "constant_expressions_rejected_by_tracer": stats["rejected_by_tracer"],
            "constant_expressions_raising_in_cpython_and_tracer": stats["raises_in_both"]}


def run(tier):
    t0 = time.time()
    V = vlib.Verdict("C10")
    rng = random.Random(vlib.seed() + 10)
    with vlib.Scratch() as scratch:
        cases, ok, out = tlc_cases(scratch)
        if not ok or not cases:
            V.machinery_error("CallBinding spec run failed: " + out[-600:])
        # stratified sample for the tracer: every (signature kind, outcome class, call kind) shape, several of each
        by = collections.defaultdict(list)
        for i, c in enumerate(cases):
            sh = shape(c)
            if tier == "quick":
                # coarser strata in the quick tier (one compilation per rejected call makes the tracer part expensive)
                sh = (sh[0], len(sh[1]), len(sh[2]), sh[3], sh[4], sh[5], sh[6], sh[7], sh[8], min(sh[9], 1))
            by[sh].append(i)
        per = 1 if tier == "quick" else 4
        sample = sorted(i for idxs in by.values() for i in rng.sample(idxs, min(per, len(idxs))))
        shards = vlib.shard(sample, vlib.NCPU)

        def one(args):
            j, idxs = args
            wd = os.path.join(scratch, f"w{j}")
            os.makedirs(wd, exist_ok=True)
            # every shard re-validates a slice of all cases against CPython, and traces its sample
            sl = cases[j::len(shards)]
            local = {"all": sl + [cases[i] for i in idxs], "sample": list(range(len(sl), len(sl) + len(idxs)))}
            json.dump(local, open(os.path.join(wd, "cases.json"), "w"))
            env = dict(os.environ, PYTHONPATH=vlib.REPO, PYTHONHASHSEED="0")
            p = subprocess.run([vlib.VENV_PY, os.path.join(vlib.VERIF, "harness", "pyobs_c10.py"), os.path.join(wd, "cases.json"), wd,
                                os.path.join(wd, "out.json")], env=env, capture_output=True, text=True, cwd=wd)
            return {"error": p.stderr[-1500:]} if p.returncode != 0 else json.load(open(os.path.join(wd, "out.json")))

        cp_checked = tr_checked = 0
        with cf.ThreadPoolExecutor(vlib.NCPU) as ex:
            for r in ex.map(one, list(enumerate(shards))):
                if "error" in r:
                    V.machinery_error("pyobs_c10: " + r["error"])
                    continue
                cp_checked += r["cpython_checked"]
                tr_checked += r["tracer_checked"]
                if r["n_spec_vs_cpython"]:
                    # the specification disagrees with CPython's own binder: the specification is wrong, not cohdl
                    V.machinery_error("CallBinding.tla disagrees with CPython: " + json.dumps(r["spec_vs_cpython"][:2]))
                for f in r["tracer"]:
                    V.violation(f"{f['clause']}:{f['why']}|{f['desc']} -> tracer {json.dumps(f['tracer'])[:120]}", f)
        # ---- operator dispatch (OpDispatch.tla): every case x every operator of its kind
        od_checked = 0
        md = os.path.join(scratch, "od")
        os.makedirs(md, exist_ok=True)
        cmd = ["java", "-XX:+UseParallelGC", "-Xmx2g", f"-DTLA-Library={vlib.SPEC}:{os.path.join(vlib.SPEC, 'mc')}", "-cp", vlib.TLA_CP,
               "tlc2.TLC", "-workers", "1", "-metadir", os.path.join(md, "meta"), "-noGenerateSpecTE",
               "-config", os.path.join(vlib.SPEC, "mc", "MC_OpDispatch.cfg"), os.path.join(vlib.SPEC, "mc", "MC_OpDispatch.tla")]
        p = subprocess.run(cmd, capture_output=True, text=True, timeout=600, cwd=md)
        odcases = [json.loads(json.loads('"' + m.group(1) + '"')) for m in re.finditer(r'<<"CASE", "((?:[^"\\]|\\.)*)">>', p.stdout + p.stderr)]
        if not odcases:
            V.machinery_error("OpDispatch spec run failed: " + (p.stdout + p.stderr)[-400:])

        def od_one(args):
            j, cs = args
            wd = os.path.join(md, f"w{j}")
            os.makedirs(wd, exist_ok=True)
            json.dump(cs, open(os.path.join(wd, "cases.json"), "w"))
            env = dict(os.environ, PYTHONPATH=vlib.REPO, PYTHONHASHSEED="0")
            q = subprocess.run([vlib.VENV_PY, os.path.join(vlib.VERIF, "harness", "pyobs_c10_ops.py"), os.path.join(wd, "cases.json"), wd,
                                os.path.join(wd, "out.json")], env=env, capture_output=True, text=True, cwd=wd)
            return {"error": q.stderr[-1200:]} if q.returncode != 0 else json.load(open(os.path.join(wd, "out.json")))

        rejected_valid = 0
        with cf.ThreadPoolExecutor(vlib.NCPU) as ex:
            for r in ex.map(od_one, list(enumerate(vlib.shard(odcases, 8)))):
                if "error" in r:
                    V.machinery_error("pyobs_c10_ops: " + r["error"])
                    continue
                od_checked += r["checked"]
                rejected_valid += r.get("rejected_valid", 0)
                if r["n_spec_vs_cpython"]:
                    V.machinery_error("OpDispatch.tla disagrees with CPython: " + json.dumps(r["spec_vs_cpython"][:2]))
                for f in r["tracer"]:
                    c = f["case"]
                    cls = "reflected-method-used-for-identical-types" if c["rel"] == "same" else \
                        "subclass-priority-ignored" if c["rel"] == "sub" else "other"
                    V.violation(f"operator-dispatch:{cls}|{f['desc']}: CPython {f['cpython']!r}, tracer {f['tracer']!r}", f)
        ev = eval_part(tier, scratch, V)
        ev.update(class_part(tier, scratch, V))
    cov = {"states": len(cases), "transitions": len(cases), "operator_dispatch_cases": od_checked, "valid_code_rejected_by_tracer": rejected_valid, "traces_validated_against_impl": tr_checked, "evaluations": cp_checked + tr_checked,
           "distinct_nontrivial": len(by), "cpython_validated_pairs": cp_checked,
           "samples": [{"sig": cases[i]["sig"], "call": cases[i]["call"], "res": cases[i]["res"]} for i in sample[:: max(1, len(sample) // 3)][:3]],
           "rule": "TLC enumerates every legal signature with <= 1 positional-only, <= 2 positional-or-keyword, <= 1 keyword-only parameter "
                   "(+- defaults, +- *args, +- **kwargs) x every call shape with <= 3 positionals, a *iterable of length 0..2, keyword lists and "
                   "a **mapping (110592 pairs); the specification's answer for EVERY pair is validated against CPython's own binder, and a "
                   "stratified sample (every distinct signature/outcome/call shape) is traced by CoHDL with constant arguments and observed "
                   "with a pyeval probe; distinct_nontrivial = distinct shapes"}
    cov.update(ev)
    cov["evaluations"] += ev.get("constant_expressions_cpython_validated", 0) + ev.get("constant_expressions_traced", 0) + \
        ev.get("class_cases_cpython_validated", 0) + ev.get("class_cases_traced", 0)
    rc = V.finish()
    vlib.write_evidence("C10", tier, "model_checking", cov, time.time() - t0, len(V.new),
                        ["spec/CallBinding.tla transcribes Python's call-binding rules (validated against CPython on the whole enumerated space)",
                         "harness/pyobs_c10.py renders signatures/calls as source text", "TLC"])
    return rc
