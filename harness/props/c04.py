"""C04: reset returns every context to its power-up behaviour from any state."""
import random
import vlib, product, gen_seq
from adl import reset

RESETS = [reset("rst"), reset("rst", active_low=True), reset("rst", is_async=True), reset("rst", active_low=True, is_async=True)]


def run(tier):
    rng = random.Random(vlib.seed() + 404)
    q = tier == "quick"
    # fixed shapes: each with one reset flavour in quick (rotating), all four in thorough
    ents = []
    shapes_c = gen_seq.coro_designs(tier, rng, "E04C", resets=RESETS if not q else RESETS[:1], with_extras=True, opts=True,
                                    n_random=60 if q else 800)
    shapes_s = gen_seq.seq_designs(tier, rng, "E04S", resets=RESETS if not q else RESETS[2:3], with_extras=True, opts=True,
                                   n_random=40 if q else 600)
    ents = shapes_c + shapes_s
    if q:
        # rotate reset flavours over the fixed shapes so that every flavour is exercised in the quick tier
        i = 0
        for e in ents:
            for c in e["ctxs"]:
                if c["kind"] == "seq" and c["reset"]["k"] != "none" and "rnd" not in e["family"]:
                    c["reset"] = RESETS[i % 4]
                    i += 1
            e["family"] += "_" + "".join(("L" if c["reset"].get("active_low") else "H") + ("A" if c["reset"].get("async") else "S")
                                          for c in e["ctxs"] if c["kind"] == "seq" and c["reset"]["k"] != "none")
    with vlib.Scratch() as scratch:
        return product.run("C04", tier, ents, lambda e: 0, scratch, timeout=1500 if tier == "quick" else 7000,
                           rule="coroutine and plain sequential designs x reset flavours {sync,async} x {active high,low}, with an "
                                "object without default, a noreset object and a noreset pushed port; the reset port is an ordinary "
                                "free input (asserted in every reachable state for any duration); for asynchronous resets input "
                                "changes without a clock edge are explored as separate steps")
