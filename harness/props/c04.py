"""C04: reset returns every context to its power-up behaviour from any state."""
import random
import vlib, product, gen_seq
from adl import reset

RESETS = [reset("rst"), reset("rst", active_low=True), reset("rst", is_async=True), reset("rst", active_low=True, is_async=True)]


def onreset_designs(tier):
    """C04: "... and registered on_reset actions run, irrespective of the state the process was in": an action that assigns a
    defaulted port, an object without default and a variable, registered either way, for every reset flavour"""
    from adl import assign, pint, ref, bin_, if_, await_, resize, obj, port, T, TRUE
    A, B, D, S, V = ref("a"), ref("b"), ref("d"), ref("s"), ref("v")
    ents = []
    k = 0
    for form in ("ctor", "call"):
        for rst in RESETS:
            sbody = [assign("next", "s", D), assign("next", "o", resize(S, 3)), if_(A, [assign("value", "v", bin_("add", V, pint(1)))]),
                     assign("next", "q", V), if_(B, [assign("push", "p", TRUE)])]
            e = gen_seq.seq_entity(f"E04R_{k:03d}", sbody, rst, f"onreset_seq_{form}")
            # (an action that reads a data input is only meaningful for a synchronous reset: the emitted process of an
            #  asynchronous one is sensitive to clock and reset only - see the C06 design `onreset_async_reads_signal`)
            e["ctxs"][0]["onreset"] = [assign("next", "o", pint(5)), assign("value", "v", pint(2))] + \
                                      ([] if rst.get("async") else [if_(D_IS3(), [assign("next", "s", pint(1))])])
            e["ctxs"][0]["onreset_form"] = form
            ents.append(e)
            k += 1
            m = lambda x: assign("next", "o", pint(x))
            cbody = [m(1), await_(A), m(2), assign("value", "v", bin_("add", V, pint(1))), assign("next", "q", V), await_(B), m(3)]
            e = gen_seq.coro_entity(f"E04R_{k:03d}", cbody, {"o", "v", "q"}, rst, family=f"onreset_coro_{form}")
            e["ctxs"][0]["onreset"] = [m(6), assign("value", "v", pint(3))]
            e["ctxs"][0]["onreset_form"] = form
            ents.append(e)
            k += 1
    return ents


def D_IS3():
    from adl import bin_, ref, pint
    return bin_("eq", ref("d"), pint(3))


def run(tier):
    rng = random.Random(vlib.seed() + 404)
    q = tier == "quick"
    # fixed shapes: each with one reset flavour in quick (rotating), all four in thorough
    ents = []
    shapes_c = gen_seq.coro_designs(tier, rng, "E04C", resets=RESETS if not q else RESETS[:1], with_extras=True, opts=True,
                                    n_random=60 if q else 800)
    shapes_s = gen_seq.seq_designs(tier, rng, "E04S", resets=RESETS if not q else RESETS[2:3], with_extras=True, opts=True,
                                   n_random=40 if q else 600)
    ents = shapes_c + shapes_s
    fixed_tail = onreset_designs(tier)
    if q:
        # rotate reset flavours over the fixed shapes so that every flavour is exercised in the quick tier
        i = 0
        for e in ents:
            for c in e["ctxs"]:
                if c["kind"] == "seq" and c["reset"]["k"] != "none" and "rnd" not in e["family"]:
                    c["reset"] = RESETS[i % 4]
                    i += 1
            e["family"] += "_" + "".join(("L" if c["reset"].get("active_low") else "H") + ("A" if c["reset"].get("async") else "S")
                                          for c in e["ctxs"] if c["kind"] == "seq" and c["reset"]["k"] != "none")
    ents += fixed_tail
    with vlib.Scratch() as scratch:
        return product.run("C04", tier, ents, lambda e: 0, scratch, timeout=1500 if tier == "quick" else 7000,
                           rule="coroutine and plain sequential designs x reset flavours {sync,async} x {active high,low}, with an "
                                "object without default, a noreset object and a noreset pushed port; the reset port is an ordinary "
                                "free input (asserted in every reachable state for any duration); for asynchronous resets input "
                                "changes without a clock edge are explored as separate steps")
