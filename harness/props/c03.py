"""C03: sequential and concurrent contexts obey hardware assignment semantics."""
import random
import vlib, product, gen_seq


def run(tier):
    rng = random.Random(vlib.seed() + 303)
    ents = gen_seq.seq_designs(tier, rng, "E03", opts=True, with_extras=True)
    with vlib.Scratch() as scratch:
        return product.run("C03", tier, ents, lambda e: 0, scratch, timeout=1200 if tier == "quick" else 6000,
                           rule="hand-enumerated bodies (read-after-write, last-write-wins, hold, variable immediacy, push, "
                                "slices, elements, run-time index, nested/elif branches) plus seeded random bodies; complete "
                                "reachable product under all input sequences per design")
