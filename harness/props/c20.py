"""C20: AXI4-Lite register maps decode, mask and hand-shake correctly."""
import os, json, time, random, re
import vlib, product

ADDRS = [0, 4, 8, 12]          # 12 is inside the map's range but unmapped
BEATS = [{"d": [0xFF, 0xFF, 0xFF, 0xFF], "s": [1, 1, 1, 1]}, {"d": [0x12, 0x34, 0x56, 0x78], "s": [1, 1, 1, 1]},
         {"d": [0xA5, 0xC3, 0x0F, 0xF0], "s": [0, 0, 1, 1]}, {"d": [0x00, 0x00, 0x00, 0x00], "s": [1, 0, 0, 0]},
         {"d": [0xDE, 0xAD, 0xBE, 0xEF], "s": [0, 1, 0, 0]}, {"d": [0x01, 0x02, 0x04, 0x08], "s": [0, 0, 0, 0]},
         {"d": [0x80, 0x01, 0x7F, 0xFE], "s": [1, 1, 0, 0]}]
LAYOUT = [{"a": 0, "kind": "word", "port": "o_w0"}, {"a": 4, "kind": "word", "port": "o_w1"}, {"a": 8, "kind": "upper16", "port": "o_r2"}]
# second wrapper: a 3-word memory (not a power of two) directly followed by a word; 0x04 and 0x0c are unmapped
ADDRS_M = [0x00, 0x10, 0x14, 0x18, 0x1C, 0x04, 0x0C]
LAYOUT_M = [{"a": 0x00, "kind": "word", "port": "o_w0"}, {"a": 0x10, "kind": "memword", "port": ""}, {"a": 0x14, "kind": "memword", "port": ""},
            {"a": 0x18, "kind": "memword", "port": ""}, {"a": 0x1C, "kind": "word", "port": "o_w7"}]
# third wrapper: a register with read / write notification counters, a register array, a nested register file, an Input and an
# Output register; 0x04, 0x18 and 0x28 are unmapped
ADDRS_N = [0x00, 0x10, 0x14, 0x20, 0x24, 0x30, 0x34, 0x04, 0x18, 0x28]
LAYOUT_N = [{"a": 0x00, "kind": "cnt", "port": "o_data", "rdport": "o_rd", "wrport": "o_wr"},
            {"a": 0x10, "kind": "word", "port": "o_a0"}, {"a": 0x14, "kind": "word", "port": "o_a1"},
            {"a": 0x20, "kind": "word", "port": "o_ia"}, {"a": 0x24, "kind": "word", "port": "o_ib"},
            {"a": 0x30, "kind": "input", "port": ""}, {"a": 0x34, "kind": "output", "port": "o_out"}]
INVAL_N = [0xC0, 0xFF, 0xEE, 0x5A]
WRAPPERS = [("AxiW", ADDRS, LAYOUT), ("AxiM", ADDRS_M, LAYOUT_M), ("AxiN", ADDRS_N, LAYOUT_N)]


def traces(tier, rng, naddr=4, n=None, rest=False):
    """per-clock master intents under several timing profiles"""
    out = []
    n = n or (160 if tier == "quick" else 3000)
    length = 36 if tier == "quick" else 60
    for t in range(n):
        prof = t % 8
        tr = []
        for i in range(length):
            it = {"aw": 0, "w": 0, "b": 1, "ar": 0, "r": 1}
            if prof == 0:      # eager master: address and data in the same clock, always ready
                if rng.random() < 0.5:
                    it["aw"], it["w"] = rng.randint(1, naddr), rng.randint(1, len(BEATS))
                if rng.random() < 0.4:
                    it["ar"] = rng.randint(1, naddr)
            elif prof == 1:    # address first, data later
                if rng.random() < 0.3:
                    it["aw"] = rng.randint(1, naddr)
                if rng.random() < 0.2:
                    it["w"] = rng.randint(1, len(BEATS))
                it["b"] = int(rng.random() < 0.6)
            elif prof == 2:    # data first, address later
                if rng.random() < 0.3:
                    it["w"] = rng.randint(1, len(BEATS))
                if rng.random() < 0.15:
                    it["aw"] = rng.randint(1, naddr)
                it["b"] = int(rng.random() < 0.5)
            elif prof == 3:    # slow response side
                if rng.random() < 0.4:
                    it["aw"], it["w"] = rng.randint(1, naddr), rng.randint(1, len(BEATS))
                if rng.random() < 0.4:
                    it["ar"] = rng.randint(1, naddr)
                it["b"] = int(rng.random() < 0.25)
                it["r"] = int(rng.random() < 0.25)
            elif prof == 4:    # reads and writes to the same address interleaved
                a = rng.randint(1, naddr - 1)
                if rng.random() < 0.4:
                    it["aw"], it["w"] = a, rng.randint(1, len(BEATS))
                if rng.random() < 0.5:
                    it["ar"] = a
                it["r"] = int(rng.random() < 0.7)
            elif prof == 5:    # unmapped address mixed in
                if rng.random() < 0.5:
                    it["aw"], it["w"] = rng.choice([naddr, naddr] + list(range(1, naddr))), rng.randint(1, len(BEATS))
                if rng.random() < 0.5:
                    it["ar"] = rng.choice(list(range(1, naddr + 1)))
            else:              # everything random
                for k, hi in (("aw", 4), ("w", len(BEATS)), ("ar", 4)):
                    if rng.random() < 0.35:
                        it[k] = rng.randint(1, hi)
                it["b"] = int(rng.random() < 0.5)
                it["r"] = int(rng.random() < 0.5)
            if rest and (i % 20) >= 11:
                # the bus comes to rest: nothing new is issued, responses are accepted (notification counters are judged at rest)
                it = {"aw": 0, "w": 0, "b": 1, "ar": 0, "r": 1}
            tr.append(it)
        out.append(tr)
    return out


def run(tier):
    t0 = time.time()
    V = vlib.Verdict("C20")
    rng = random.Random(vlib.seed() + 20)
    src = open(os.path.join(vlib.VERIF, "harness", "c20_wrapper.py")).read().split('if __name__ == "__main__":')[0]
    steps = 0
    trs_all = []
    with vlib.Scratch() as scratch:
        obs = vlib.compile_modules([{"name": "gc20", "source": src, "entities": [w[0] for w in WRAPPERS]}], scratch)
        shards, meta = [], []
        for wname, addrs, layout in WRAPPERS:
            ob = vlib.read_obs(obs[wname])
            if ob["outcome"] != "accepted":
                V.violation(f"wrapper-rejected:{wname}|{ob['error']['cls']}: {ob['error']['msg'][:160]}", {"clause": "WrapperAccepted", "error": ob["error"], "tb": ob.get("tb", "")})
                continue
            if ob["reader"] != "ok":
                V.machinery_error(f"reader: {ob['reader']} {ob.get('reader_msg')}")
                continue
            trs = traces(tier, rng, naddr=len(addrs), n=(90 if tier == "quick" else 1500), rest=(wname == "AxiN"))
            trs_all += trs
            base = {"design": {"ast": ob["ast"], "top": wname.lower()}, "addrs": addrs, "beats": BEATS, "layout": layout}
            if wname == "AxiN":
                base["inval"] = INVAL_N
            for sh in vlib.shard(trs, vlib.NCPU // 2):
                shards.append(dict(base, traces=sh))
                meta.append((wname, ob["vhdl"]))
        res = vlib.run_tlc_shards("MC_Axi.tla", "MC_Axi.cfg", shards, scratch, timeout=1500 if tier == "quick" else 7000, heap="3g") if shards else []
        for sh, (wname, vhdl), r in zip(shards, meta, res):
            p = r["parsed"]
            if r["timeout"]:
                V.machinery_error("MC_Axi timeout")
            elif not p["finished"] or (p["errors"] and not p["viol"]):
                V.machinery_error("MC_Axi: " + " / ".join(p["errors"][:3]) + r["out"][-600:])
            steps += p["stat"].get("steps", [0])[0]
            for tid, pos, err in p["viol"]:
                tr = sh["traces"][tid - 1][:pos]
                V.violation(f"{err}:{wname}|after {pos} clocks, intents {json.dumps(tr[-6:])}", {"clause": err, "wrapper": wname, "intents": tr, "vhdl": vhdl})
    trs = trs_all
    cov = {"states": steps, "transitions": steps, "traces_validated_against_impl": len(trs), "evaluations": steps,
           "distinct_nontrivial": len(trs), "samples": [t[:6] for t in trs[:2]],
           "layouts": {w[0]: w[2] for w in WRAPPERS}, "addresses": {w[0]: w[1] for w in WRAPPERS}, "beats": len(BEATS), "exhaustive": False,
           "rule": "three register maps behind std.axi.axi4_light (A: two MemWords, one register with a stored upper field and a hardware-driven "
                   "lower field, one unmapped address; B: a MemWord, a 3-word Memory directly followed by a MemWord, unmapped gaps; C: a register "
                   "with read / write notification counters, a register array, a nested register file, an Input and an Output register, the bus "
                   "coming to rest periodically so that the counters are judged against the number of completed accesses); seeded random master intent traces under 8 timing profiles (same-clock address+data, "
                   "address first, data first, slow response side, same-address read/write interleaving, unmapped addresses, all random); the "
                   "master holds every valid until ready; the emitted VHDL is run against the channel monitor of AxiLite.tla at every clock"}
    rc = V.finish()
    vlib.write_evidence("C20", tier, "model_checking", cov, time.time() - t0, len(V.new),
                        product.ASSUMPTIONS[:2] + ["spec/AxiLite.tla transcribes the C20 statement as a channel monitor",
                                                   "the wrapper harness/c20_wrapper.py routes register contents to output ports", "TLC"])
    return rc
