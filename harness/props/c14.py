"""C14: std.Fifo and std.Stack keep order, content and occupancy exact."""
import os, json, time, re
import vlib, product

FIFO_TMPL = '''
class {name}(cohdl.Entity):
    clk = Port.input(Bit)
    push = Port.input(Bit)
    pop = Port.input(Bit)
    din = Port.input(BitVector[{w}])
    dout = Port.output(BitVector[{w}], default=Null)
    front = Port.output(BitVector[{w}])
    empty = Port.output(Bit)
    full = Port.output(Bit)

    def architecture(self):
        fifo = std.Fifo[BitVector[{w}], {n}]({args})

        @std.concurrent
        def logic():
            self.front <<= fifo.front()
            self.empty <<= fifo.empty()
            self.full <<= fifo.full()

{contexts}
'''
FIFO_TWO_CTX = '''        @std.sequential(std.Clock(self.clk))
        def data_receiver():
            if self.push:
                fifo.push(self.din)

        @std.sequential(std.Clock(self.clk))
        def data_transmitter():
            if self.pop:
                self.dout <<= fifo.pop()
'''
FIFO_ONE_CTX = '''        @std.sequential(std.Clock(self.clk))
        def both():
            if self.push:
                fifo.push(self.din)
            if self.pop:
                self.dout <<= fifo.pop()
'''
FIFO_GATED_TMPL = '''
class {name}(cohdl.Entity):
    clk = Port.input(Bit)
    push = Port.input(Bit)
    pop = Port.input(Bit)
    din = Port.input(BitVector[{w}])
    dout = Port.output(BitVector[{w}], default=Null)
    accpush = Port.output(Bit, default=False)
    accpop = Port.output(Bit, default=False)

    def architecture(self):
        fifo = std.Fifo[BitVector[{w}], {n}]({args})

        @std.sequential(std.Clock(self.clk))
        def data_receiver():
            if self.push and not fifo.full():
                fifo.push(self.din)
                self.accpush ^= True

        @std.sequential(std.Clock(self.clk))
        def data_transmitter():
            if self.pop and not fifo.empty():
                self.dout <<= fifo.pop()
                self.accpop ^= True
'''
STACK_TMPL = '''
class {name}(cohdl.Entity):
    clk = Port.input(Bit)
    push = Port.input(Bit)
    pop = Port.input(Bit)
    rs = Port.input(Bit)
    din = Port.input(BitVector[{w}])
    dout = Port.output(BitVector[{w}], default=Null)
    empty = Port.output(Bit)
    full = Port.output(Bit)
    size = Port.output(Unsigned[{sw}])

    def architecture(self):
        stack = std.Stack[BitVector[{w}], {n}]({args})

        @std.concurrent
        def logic():
            self.empty <<= stack.empty()
            self.full <<= stack.full()
            self.size <<= stack.size()

        @std.sequential(std.Clock(self.clk))
        def proc():
            if self.push:
                stack.push(self.din)
            elif self.pop:
                self.dout <<= stack.pop()
            elif self.rs:
                stack.reset()
'''
HEADER = '''from __future__ import annotations
import cohdl
from cohdl import Bit, BitVector, Unsigned, Signed, Port, Signal, Variable, Null, Full
from cohdl import std
'''


def configs(tier):
    cfgs = []
    ns = (2, 3, 4, 5) if tier == "quick" else (2, 3, 4, 5, 6, 8)
    for n in ns:
        for w in ((1,) if tier == "quick" and n > 2 else (1, 2)):
            cfgs.append(dict(kind="fifo", n=n, w=w, args="", ctx="two", exact=1, dropold=0))
            if n in (3, 4):
                cfgs.append(dict(kind="fifo", n=n, w=w, args="", ctx="one", exact=1, dropold=0))
    for n, d in (((3, 1), (4, 1), (4, 2)) if tier == "quick" else ((3, 1), (4, 1), (5, 1), (4, 2), (3, 2), (8, 1))):
        cfgs.append(dict(kind="fifo", n=n, w=1, args=f"delay={d}", ctx="gated", exact=0, dropold=0))
    for n in (3, 4):
        cfgs.append(dict(kind="fifo", n=n, w=1, args="", ctx="gated", exact=0, dropold=0))
    for n in ns:
        for w in ((1,) if n > 2 or tier == "quick" else (1, 2)):
            cfgs.append(dict(kind="stack", n=n, w=w, args="", ctx="one", exact=1, dropold=0))
            cfgs.append(dict(kind="stack", n=n, w=w, args="mode=std.StackMode.DROP_OLD", ctx="one", exact=1, dropold=1))
    return cfgs


def source(name, c):
    if c["kind"] == "fifo" and c["ctx"] == "gated":
        return FIFO_GATED_TMPL.format(name=name, w=c["w"], n=c["n"], args=c["args"])
    if c["kind"] == "fifo":
        return FIFO_TMPL.format(name=name, w=c["w"], n=c["n"], args=c["args"],
                                contexts=FIFO_TWO_CTX if c["ctx"] == "two" else FIFO_ONE_CTX)
    return STACK_TMPL.format(name=name, w=c["w"], n=c["n"], args=c["args"], sw=max(1, c["n"].bit_length()))


def run(tier):
    t0 = time.time()
    V = vlib.Verdict("C14")
    cfgs = configs(tier)
    budget = 6000 if tier == "quick" else 80000
    with vlib.Scratch() as scratch:
        # design level: the user-facing property over the specification's own variables, before any implementation is involved
        dl_ok, dl_gen, dl_dist, dl_out = vlib.run_design_level("MC_Containers.tla", "MC_Containers.cfg", scratch)
        if not dl_ok:
            V.machinery_error("design-level check of the specification failed (Containers.tla: FIFO order / occupancy): " + dl_out[-500:])
        lv_ok, lv_gen, lv_dist, lv_out = vlib.run_design_level("MC_ContainersLive.tla", "MC_ContainersLive.cfg", scratch)
        if not lv_ok:
            V.machinery_error("design-level liveness check of the specification failed (Containers.tla: delivery / drain under a fair consumer): " + lv_out[-500:])
        mods = []
        for i, c in enumerate(cfgs):
            c["name"] = f"E14_{i:03d}"
            mods.append({"name": f"gc14_{i:03d}", "source": HEADER + source(c["name"], c), "entities": [c["name"]]})
        obs = vlib.compile_modules(mods, scratch)
        designs = []
        for c in cfgs:
            ob = vlib.read_obs(obs[c["name"]])
            fam = f"{c['kind']}[N={c['n']},W={c['w']},{c['args'] or 'default'},{c['ctx']}-ctx]"
            if ob["outcome"] != "accepted":
                V.violation(f"wrapper-rejected:{fam}|{ob['error']['cls']}: {ob['error']['msg'][:150]}",
                            {"clause": "WrapperAccepted", "source_py": source(c["name"], c), "error": ob["error"], "tb": ob.get("tb", "")})
                continue
            if ob["reader"] != "ok":
                (V.violation if ob["reader"] == "syntax_error" else (lambda k, p: V.machinery_error(k)))(
                    f"emitted-vhdl-{ob['reader']}:{fam}|{ob['reader_msg']}", {"vhdl": ob["vhdl"]})
                continue
            designs.append({"id": c["name"], "kind": c["kind"], "n": c["n"], "w": c["w"], "exact": c["exact"], "dropold": c["dropold"],
                            "hassize": 1 if c["kind"] == "stack" else 0, "hasfront": 1 if c["kind"] == "fifo" and c["ctx"] != "gated" else 0, "gated": 1 if c["ctx"] == "gated" else 0, "budget": budget,
                            "ast": ob["ast"], "top": c["name"].lower(), "family": fam})
        shards = [{"designs": [d]} for d in designs]
        res = vlib.run_tlc_shards("MC_Comp.tla", "MC_Comp.cfg", shards, scratch, timeout=1500 if tier == "quick" else 7000)
        gen = dist = 0
        stats = {}
        fam = {d["id"]: d["family"] for d in designs}
        viols = []
        for r in res:
            p = r["parsed"]
            gen += p["generated"]
            dist += p["distinct"]
            stats.update(p["stat"])
            viols += p["viol"]
            if r["timeout"]:
                V.machinery_error("MC_Comp timeout " + r["obsfile"])
            elif not p["finished"] or (p["errors"] and not p["viol"]):
                V.machinery_error("MC_Comp: " + " / ".join(p["errors"][:3]) + r["out"][-500:])
        by = {d["id"]: d for d in designs}
        seen, first, rest = set(), [], []
        for did, err in viols:
            (first if (err, by[did]["kind"]) not in seen and len(first) < 8 else rest).append((did, err))
            seen.add((err, by[did]["kind"]))
        viols = first + rest
        nrep = len(first)
        rsh = [{"designs": [by[did]]} for did, _ in viols[:nrep]]
        rres = vlib.run_tlc_shards("MC_Comp.tla", "MC_Comp_replay.cfg", rsh, scratch, timeout=600) if rsh else []
        for (did, err), rr in zip(viols[:nrep], rres):
            ops = re.findall(r"/\\ last = (\[[^\n]*\])", rr["out"])
            V.violation(f"{err}:{fam[did]}|{did}", {"clause": err, "config": fam[did], "source_py": source(did, next(c for c in cfgs if c['name'] == did)),
                                                     "vhdl": obs[did]["vhdl"], "operations": ops})
        for did, err in viols[nrep:]:
            V.violation(f"{err}:{fam[did]}|{did}", {"clause": err, "config": fam[did]})
    trunc = [k for k, v in stats.items() if v[0] >= budget]
    cov = {"states": dist, "transitions": gen, "traces_validated_against_impl": len(designs), "configurations": len(cfgs),
           "evaluations": gen, "design_level": {"what": "Containers.tla: FIFO order / occupancy", "states": dl_dist, "transitions": dl_gen},
           "design_level_liveness": {"what": "Containers.tla under a weakly fair consumer: every pushed element is eventually popped in order; a full Fifo drains", "states": lv_dist}, "distinct_nontrivial": sum(1 for v in stats.values() if v[1] >= 2),
           "samples": [d["family"] for d in designs[:: max(1, len(designs) // 4)][:4]],
           "truncated_configurations": [fam[k] for k in trunc], "budget_transitions": budget, "exhaustive": not trunc,
           "rule": "wrapper entity per configuration (capacity N incl. powers of two and not, element width, one/two contexts, delay, "
                   "stack mode); every per-clock choice of {push(v), pop, both (Fifo), reset (Stack), none} that a user gating on the "
                   "wrapper's full/empty outputs may make; complete reachable product with the abstract container unless truncated"}
    rc = V.finish()
    vlib.write_evidence("C14", tier, "model_checking", cov, time.time() - t0, len(V.new),
                        product.ASSUMPTIONS[:2] + ["spec/Containers.tla transcribes the C14 statement and the Fifo/Stack docstrings", "TLC"])
    return rc
