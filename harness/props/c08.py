"""C08: intermediate values are written before read within every activation."""
import itertools, random
import vlib, verdict
from adl import *  # noqa

U2, U3, BV4 = T("u", 2), T("u", 3), T("bv", 4)
A, B, D = ref("a"), ref("b"), ref("d")


def ports():
    return [port("clk", "in", BIT), port("a", "in", BIT), port("b", "in", BIT), port("d", "in", U2), port("w", "in", BV4),
            port("o", "out", U3, default=0), port("p", "out", BIT, default=0)]


DEF = lambda n="t": bind(n, bin_("add", D, pint(1)))            # t = d + 1   (a computed intermediate)
DEFB = lambda n="t": bind(n, bin_("and", A, B))
DEFI = lambda n="t": bind(n, dynidx(ref("w"), D))                # t = w[d]    (reference with a run-time index)
USE = lambda n="t": assign("next", "o", resize(ref(n), 3))
USEB = lambda n="t": assign("next", "p", ref(n))


def shapes():
    """(tag, body, coroutine?)"""
    out = []
    for tag, d, u in (("num", DEF, USE), ("bit", DEFB, USEB), ("dynref", DEFI, USEB)):
        out += [
            (f"{tag}:straight", [d(), u()], False),
            (f"{tag}:def-in-then-use-in-then", [if_(A, [d(), u()])], False),
            (f"{tag}:def-in-then-use-after", [if_(A, [d()]), u()], False),
            (f"{tag}:def-in-both-use-after", [if_(A, [d()], [d()]), u()], False),
            (f"{tag}:def-in-then-use-in-else", [if_(A, [d()], [u()])], False),
            (f"{tag}:def-in-else-use-after", [if_(A, [assign("next", "p", B)], [d()]), u()], False),
            (f"{tag}:def-before-if-use-inside", [d(), if_(A, [u()], [assign("next", "o", pint(1))])], False),
            (f"{tag}:nested-def-inner-use-outer", [if_(A, [if_(B, [d()])], [d()]), u()], False),
            (f"{tag}:nested-def-all-paths", [if_(A, [if_(B, [d()], [d()])], [d()]), u()], False),
            (f"{tag}:elif-chain-one-missing", [if_(A, [d()], [if_(B, [d()], [assign("next", "p", A)])]), u()], False),
            (f"{tag}:elif-chain-all", [if_(A, [d()], [if_(B, [d()], [d()])]), u()], False),
            (f"{tag}:two-temps-one-partial", [d("t"), if_(A, [d("r")]), u("t")] + ([u("r")] if tag == "num" else [USEB("r")]), False),
            (f"{tag}:def-use-in-both-branches", [if_(A, [d(), u()], [d(), u()])], False),
            # match statements (with and without default)
            (f"{tag}:match-def-use-same-case", [match_(D, [(pint(0), [d(), u()]), (pint(1), [assign("next", "p", A)])])], False),
            (f"{tag}:match-def-before-use-in-case", [d(), match_(D, [(pint(0), [u()]), (pint(1), [assign("next", "p", A)])], default=[u()])], False),
            (f"{tag}:match-def-in-first-case-use-after", [match_(D, [(pint(0), [d()]), (pint(1), [assign("next", "p", A)])]), u()], False),
            (f"{tag}:match-def-in-only-case-no-default-use-after", [match_(D, [(pint(0), [d()])]), u()], False),
            (f"{tag}:match-def-in-last-case-no-default-use-after", [match_(D, [(pint(0), [assign("next", "p", A)]), (pint(1), [d()])]), u()], False),
            (f"{tag}:match-def-in-default-use-after", [match_(D, [(pint(0), [assign("next", "p", A)])], default=[d()]), u()], False),
            (f"{tag}:match-def-in-case-use-in-other-case", [match_(D, [(pint(0), [d()]), (pint(1), [u()])])], False),
            (f"{tag}:match-def-in-case-use-in-default", [match_(D, [(pint(0), [d()])], default=[u()])], False),
            (f"{tag}:match-in-if-def-use-after", [if_(A, [match_(D, [(pint(2), [d()])], default=[assign("next", "p", B)])], [d()]), u()], False),
            (f"{tag}:if-in-match-def-use-after", [match_(D, [(pint(2), [if_(A, [d()])])], default=[d()]), u()], False),
            # state machines: an intermediate may not cross a state boundary
            (f"{tag}:coro-def-await-use", [d(), await_(A), u()], True),
            (f"{tag}:coro-def-use-same-state", [await_(A), d(), u(), await_(B)], True),
            (f"{tag}:coro-def-before-loop-use-inside", [d(), while_(A, [u()])], True),
            (f"{tag}:coro-def-in-loop-use-after", [while_(A, [d(), USEB("t") if tag != "num" else u()]), assign("next", "p", B)], True),
            (f"{tag}:coro-def-in-state-if-use-after-if", [await_(A), if_(B, [d()]), u()], True),
        ]
    # for-break chains whose body defines an intermediate value
    TM = bin_("add", ref("v_"), pint(1))
    out += [
        ("for:def-in-chain-use-after", [forchain([A, B], [D, slice_u(ref("w"))], "t", mode="bind", tmpl=TM), USE()], False),
        ("for:def-in-chain-and-else-use-after", [forchain([A, B], [D, slice_u(ref("w"))], "t", mode="bind", tmpl=TM, elseval=bin_("add", D, pint(2))), USE()], False),
        ("for:single-iteration-use-after", [forchain([A], [D], "t", mode="bind", tmpl=TM), USE()], False),
        ("for:def-before-chain-use-in-values", [DEF(), forchain([A, B], [ref("t"), D], "o", tmpl=resize(ref("v_"), 3))], False),
        ("for:def-before-chain-use-after", [DEF(), forchain([A, B], [pint(1), pint(2)], "o"), USE()], False),
        ("for:def-in-then-use-in-chain-values", [if_(A, [DEF()]), forchain([B], [ref("t")], "o", tmpl=resize(ref("v_"), 3))], False),
        ("for:coro-def-await-chain", [DEF(), await_(A), forchain([B], [ref("t")], "o", tmpl=resize(ref("v_"), 3))], True),
    ]
    return out


def slice_u(e):
    return view(slice_(e, 1, 0), "u")


def run(tier):
    ents = []
    for i, (tag, body, coro) in enumerate(shapes()):
        e = entity(f"E08_{i:04d}", ports(), [], [seq_ctx("proc", body, coroutine=coro)])
        e["family"] = tag
        ents.append(e)
    return verdict.run("C08", tier, ents, static_clauses=("variables",),
                       rule="control-flow shapes {if, if/else, elif chains, nested, two intermediates, coroutine states and loops} x position "
                            "of the definition x position of the use, for a computed number, a computed bit and a reference with a run-time "
                            "index; the compiler's verdict is compared with CoAccept.TempsAccept (TLC); every accepted design is model-checked "
                            "with every compiler-generated variable reset to 'uninitialised' at the start of each activation, so a "
                            "read-before-write on any executed path of any input sequence is an error")
