"""C01: coroutine -> state machine translation is clock-accurate."""
import random
import vlib, product, gen_seq


def run(tier):
    rng = random.Random(vlib.seed() + 101)
    ents = gen_seq.coro_designs(tier, rng, "E01", opts=True)
    with vlib.Scratch() as scratch:
        return product.run("C01", tier, ents, lambda e: 0, scratch, timeout=1200 if tier == "quick" else 6000,
                           rule="hand-enumerated coroutine shapes (one per clause of C01) plus seeded random bodies "
                                "(nesting <= 2 of if/while/await/break/continue); for each design the complete reachable "
                                "product state space under all input sequences is explored")
