"""C09: compile-time evaluation of primitives agrees with the emitted run-time logic."""
import os, json, time, random, subprocess
import vlib, product, gen_expr
from adl import *  # noqa


def py_observations(maxw, scratch):
    out = os.path.join(scratch, "c09_cases.json")
    env = dict(os.environ, PYTHONPATH=vlib.REPO, PYTHONHASHSEED="0")
    p = subprocess.run([vlib.VENV_PY, os.path.join(vlib.VERIF, "harness", "pyobs_c09.py"), str(maxw), out],
                       env=env, capture_output=True, text=True, cwd=scratch)
    if p.returncode != 0:
        raise RuntimeError("pyobs_c09 failed: " + p.stderr[-1500:])
    return json.load(open(out))["cases"]


def describe(c):
    op, ka, wa, va, kb, wb, vb, rk, rw, rv = c
    a = f"{ka}{wa}({va})" if ka != "int" else f"int({va})"
    b = "" if kb == "" else (f"{kb}{wb}({vb})" if kb != "int" else f"int({vb})")
    if op in ("resize", "slice", "idx", "view"):
        b = f"[{kb},{wb},{vb}]"
    return f"{op} {a} {b} -> {rk}{rw}({rv})"


def shape(c):
    op, ka, wa, va, kb, wb, vb = c[:7]
    return f"{op}:{ka}{wa}:{kb}{wb if kb not in ('', 'int') else ''}"


def folded_designs(tier, rng):
    """the same operations with literal operands inside contexts: the compiler folds them in Python and the
    emitted literal must be what CoExpr yields (run-time operands are C02's subject)"""
    ents = []
    maxw = 3
    k = 0
    for kind in ("u", "s"):
        for wa in range(1, maxw + 1):
            for wb in range(1, maxw + 1):
                ta, tb = T(kind, wa), T(kind, wb)
                vals = [(rng.randrange(1 << wa), rng.randrange(1 << wb)) for _ in range(3 if tier == "quick" else 12)]
                vals += [((1 << wa) - 1, (1 << wb) - 1), (1 << (wa - 1), 1)]
                for va, vb in vals:
                    ex = []
                    for op in ("add", "sub", "mul", "truncdiv", "mod", "rem"):
                        if op in ("truncdiv", "mod", "rem") and vb == 0:
                            continue
                        ex.append((gen_expr.rt_arith(op, ta, tb), bin_(op, lit(ta, va), lit(tb, vb))))
                    for op in ("lt", "eq", "ge"):
                        ex.append((BIT, bin_(op, lit(ta, va), lit(tb, vb))))
                    # python ints in either position
                    lo, hi = (0, (1 << wa) - 1) if kind == "u" else (-(1 << (wa - 1)), (1 << (wa - 1)) - 1)
                    c = max(lo, min(hi, vb))
                    for op in ("add", "sub", "mul"):
                        ex.append((gen_expr.rt_arith(op, ta, None), bin_(op, lit(ta, va), pint(c))))
                        ex.append((gen_expr.rt_arith(op, None, ta), bin_(op, pint(c), lit(ta, va))))
                    ex.append((ta, bin_("rshift", lit(ta, va), pint(1))))
                    ex.append((ta, bin_("lshift", lit(ta, va), pint(1))))
                    ex.append((T("bv", wa + wb), bin_("concat", lit(ta, va), lit(tb, vb))))
                    ex.append((T(kind, wa + 2), resize(lit(ta, va), wa + 2)))
                    e = gen_expr.mk_entity(f"E09_{k:04d}", [], ex)
                    e["family"] = f"fold_{kind}{wa}_{kind}{wb}_{va}_{vb}"
                    ents.append(e)
                    k += 1
    return ents


def run(tier):
    t0 = time.time()
    V = vlib.Verdict("C09")
    rng = random.Random(vlib.seed() + 909)
    maxw = 3 if tier == "quick" else 4
    with vlib.Scratch() as scratch:
        cases = py_observations(maxw, scratch)
        shards = vlib.shard(cases, vlib.NCPU)
        res = vlib.run_tlc_shards("MC_PyObs.tla", "MC_PyObs.cfg", [{"cases": s} for s in shards], scratch, timeout=1200)
        nviol = 0
        checked = 0
        for sh, r in zip(shards, res):
            p = r["parsed"]
            if r["timeout"] or p["errors"] or "cases" not in p["stat"]:
                V.machinery_error("MC_PyObs: " + " / ".join(p["errors"][:3]) + r["out"][-500:])
                continue
            checked += p["stat"]["cases"][0]
            for i, verdict in p["viol"]:
                c = sh[i - 1]
                nviol += 1
                V.violation(f"{verdict}:{shape(c)}|{describe(c)}", {"clause": verdict, "case": c, "description": describe(c)})
        ents = folded_designs(tier, rng)
        # ... and the same operator/int mixes on run-time operands (the other side of "fold = run-time logic")
        for j, (tag, in_ports, exprs) in enumerate(f for f in gen_expr.binary_families(3, tier) if f[0].startswith("int_")):
            e = gen_expr.mk_entity(f"E09R_{j:04d}", in_ports, exprs)
            e["family"] = "runtime_" + tag
            ents.append(e)
        V, cov = product.run("C09", tier, ents, lambda e: 1, scratch, timeout=1500, verdict=V, finish=False)
    shapes = {shape(c) for c in cases}
    cov.update({"evaluations": checked + cov["transitions"], "python_level_cases": checked,
                "distinct_nontrivial": len(shapes),
                "folded_designs": len(ents),
                "rule": "every operator/method x operand kind/width (<= %d) x ALL operand values (and Python ints in either "
                        "position) evaluated in Python on constants and validated by TLC against CoExpr; plus designs with literal "
                        "operands (folded by the compiler) model-checked against CoExpr; distinct_nontrivial = distinct "
                        "(operation, operand kinds/widths) shapes" % maxw,
                "samples": [describe(c) for c in cases[:: max(1, len(cases) // 5)][:5]] + cov["samples"][:1]})
    rc = V.finish()
    vlib.write_evidence("C09", tier, "model_checking", cov, time.time() - t0, len(V.new), product.ASSUMPTIONS)
    return rc
