"""C05: type conversions on assignment preserve the value or are rejected."""
import random, time, json
import vlib, product
from adl import *  # noqa

KINDS = ("bit", "bv", "u", "s")


def types(maxw):
    return [BIT] + [T(k, w) for k in ("bv", "u", "s") for w in range(1, maxw + 1)]


def tname(t):
    return t["k"] + (str(t["w"]) if t["k"] != "bit" else "")


def sources(maxw):
    """(tag, input ports, expr)"""
    out = []
    for t in types(maxw):
        out.append((tname(t), [("a", t)], ref("a")))
    for c in range(-5, 10):
        out.append((f"int{c}".replace("-", "m"), [], pint(c)))
    out.append(("null", [], NULL))
    out.append(("full", [], FULL))
    for s in ("0", "1", "10", "011", "1010"):
        out.append((f"str{s}", [], strlit(s)))
    out.append(("boolT", [], TRUE))
    out.append(("boolF", [], FALSE))
    out.append(("cmp", [("a", T("u", 2))], bin_("lt", ref("a"), pint(2))))
    return out


FORMS = [
    # (tag, context kind, object kind, mode, attr-form, path maker)
    ("conc_next_op", "conc", "port", "next", "op"),
    ("seq_next_op", "seq", "port", "next", "op"),
    ("seq_next_attr", "seq", "signal", "next", "attr"),
    ("seq_value_op", "seq", "variable", "value", "op"),
    ("seq_value_attr", "seq", "variable", "value", "attr"),
    ("seq_push_op", "seq", "port", "push", "op"),
    ("seq_push_attr", "seq", "signal", "push", "attr"),
]


def make(name, src, dst, form):
    stag, in_ports, e = src
    ftag, ckind, okind, mode, aform = form
    ports = [port("clk", "in", BIT)] + [port(n, "in", t) for n, t in in_ports]
    objs = []
    if okind == "port":
        ports.append(port("o", "out", dst, default=0))
        body = [assign(mode, "o", e, form=aform)]
    else:
        ports.append(port("o", "out", dst, default=0))
        objs.append(obj("x", okind, dst, default=0))
        body = [assign(mode, "x", e, form=aform), assign("next", "o", ref("x"))]
    if ckind == "conc":
        ctxs = [conc_ctx("logic", body)]
    elif okind == "signal":
        # the signal is written by the clocked context and shown by a concurrent one
        ctxs = [seq_ctx("proc", body[:1]), conc_ctx("show", body[1:])]
    else:
        ctxs = [seq_ctx("proc", body)]
    en = entity(name, ports, objs, ctxs)
    en["family"] = f"{stag}->{tname(dst)}:{ftag}"
    return en


def slice_forms(name_prefix, k0, maxw):
    """slice and element targets of a 4-bit object of each kind"""
    ents = []
    k = k0
    for tk in ("bv", "u", "s"):
        dst = T(tk, 4)
        for stag, in_ports, e in sources(min(maxw, 3)):
            for ptag, path, w in (("sl31", [p_slice(3, 1)], 3), ("sl00", [p_slice(0, 0)], 1), ("el2", [p_idx(2)], 0)):
                ports = [port("clk", "in", BIT)] + [port(n, "in", t) for n, t in in_ports] + [port("o", "out", dst, default=0)]
                body = [assign("next", target("o", path), e)]
                en = entity(f"{name_prefix}_{k:04d}", ports, [], [seq_ctx("proc", body)])
                en["family"] = f"{stag}->{tname(dst)}[{ptag}]:seq_next_op"
                ents.append(en)
                k += 1
    return ents


def merge_and_view_forms(name_prefix, k0, tier):
    """if-expression merges of two differently typed run-time values, assignments through typed views, and
    sources that are signals with a default (driven from an input by another context)"""
    ents = []
    k = k0
    ws = (2, 3) if tier == "quick" else (1, 2, 3, 4)
    vec = [T(kk, w) for kk in ("bv", "u", "s") for w in ws]
    rng = random.Random(5)
    pairs = [(x, y) for x in vec for y in vec]
    if tier == "quick":
        pairs = [p for p in pairs if p[0]["k"] != "bv" and p[1]["k"] != "bv"]
    for ta, tb in pairs:
        for dst in ([ta, tb] if ta != tb else [ta]):
            for srcform in ("port", "signal", "counter", "return"):
                if tier == "quick" and srcform == "signal" and (ta["k"] == tb["k"]):
                    continue
                if srcform == "counter" and (ta["k"] == "bv" or tb["k"] == "bv" or (tier == "quick" and ta["w"] != tb["w"])):
                    continue
                if srcform == "counter" and ((ta["k"] == "s" and ta["w"] == 1) or (tb["k"] == "s" and tb["w"] == 1)):
                    continue        # the counter adds the integer 1, which a Signed[1] cannot represent
                ports = [port("clk", "in", BIT), port("c", "in", BIT), port("a", "in", ta), port("b", "in", tb),
                         port("o", "out", dst, default=0)]
                objs, ctxs = [], []
                ea, eb = ref("a"), ref("b")
                if srcform == "signal":
                    objs = [obj("xa", "signal", ta, default=0), obj("xb", "signal", tb, default=0)]
                    ctxs.append(conc_ctx("feed", [assign("next", "xa", ref("a")), assign("next", "xb", ref("b"))]))
                    ea, eb = ref("xa"), ref("xb")
                if srcform == "counter":
                    # the merged values are free-running registers with a default, written by an earlier sequential context
                    # (their compile-time placeholders are "initialised" constants)
                    objs = [obj("xa", "signal", ta, default=0), obj("xb", "signal", tb, default=0)]
                    ctxs.append(seq_ctx("count", [assign("next", "xa", bin_("add", ref("xa"), pint(1)), form="attr"),
                                                  assign("next", "xb", bin_("add", ref("xb"), pint(1)), form="attr")]))
                    ea, eb = ref("xa"), ref("xb")
                funcs = []
                if srcform == "return":
                    # C05 "function-return merge": the two return statements of a helper yield differently typed values
                    pick = func("pick", [], [if_(ref("c"), [ret_(ea)], [ret_(eb)])])
                    funcs = [pick]
                    ctxs.append(seq_ctx("proc", [ucall(pick, [], ret="r1"), assign("next", "o", ref("r1"))]))
                else:
                    ctxs.append(seq_ctx("proc", [assign("next", "o", ifexp(ref("c"), ea, eb))]))
                en = entity(f"{name_prefix}_{k:04d}", ports, objs, ctxs)
                en["funcs"] = funcs
                en["family"] = f"merge({tname(ta)},{tname(tb)})->{tname(dst)}:{srcform}"
                ents.append(en)
                k += 1
    # assignments through views
    for root in vec:
        for to in ("u", "s", "bv"):
            for src in vec + [BIT]:
                if tier == "quick" and src != BIT and abs(src["w"] - root["w"]) > 1:
                    continue
                ports = [port("clk", "in", BIT), port("a", "in", src), port("o", "out", root, default=0)]
                body = [assign("next", target("o", [p_view(to)]), ref("a"))]
                en = entity(f"{name_prefix}_{k:04d}", ports, [], [seq_ctx("proc", body) if k % 2 else conc_ctx("logic", body)])
                en["family"] = f"{tname(src)}->{tname(root)}.{to}:view"
                ents.append(en)
                k += 1
    return ents


def local_init_forms(name_prefix, k0, tier):
    """initial value of a signal constructed inside a context: `x = Signal[T](source)` ("initialisation" in C05)"""
    ents = []
    k = k0
    ws = (2, 3) if tier == "quick" else (1, 2, 3, 4)
    vec = [T(kk, w) for kk in ("bv", "u", "s") for w in ws]
    for src in vec + [BIT]:
        for dst in vec + [BIT]:
            ports = [port("clk", "in", BIT), port("a", "in", src), port("o", "out", dst, default=0)]
            body = [local("x", dst, ref("a")), assign("next", "o", ref("x"))]
            en = entity(f"{name_prefix}_{k:04d}", ports, [obj("x", "signal", dst, local=True)], [seq_ctx("proc", body)])
            en["family"] = f"{tname(src)}->{tname(dst)}:local-init"
            ents.append(en)
            k += 1
    return ents


def ty_src(t):
    from adl import ty_py
    return ty_py(t)


def portconn_forms(name_prefix, k0, tier):
    """C05 "port connection": a sub-entity passing its input to its output, instantiated with an actual whose type differs from
    the formal's - on the input side (value flows actual -> formal) or on the output side (formal -> actual).
    Reference description: the formal is a signal of the formal's type between the parent's ports."""
    ents = []
    k = k0
    ws = (2, 3) if tier == "quick" else (1, 2, 3, 4)
    vec = [T(kk, w) for kk in ("bv", "u", "s") for w in ws] + [BIT]
    for side in ("in", "out"):
        for outer in vec:
            for formal in vec:
                name = f"{name_prefix}_{k:04d}"
                ta, td = (outer, formal) if side == "in" else (formal, outer)
                src = f"""
class Sub_{name}(cohdl.Entity):
    a = Port.input({ty_src(formal)})
    o = Port.output({ty_src(formal)})

    def architecture(self):
        @std.concurrent
        def logic():
            self.o <<= self.a


class {name}(cohdl.Entity):
    clk = Port.input(Bit)
    a = Port.input({ty_src(ta)})
    o = Port.output({ty_src(td)})

    def architecture(self):
        Sub_{name}(a=self.a, o=self.o)
"""
                ports = [port("clk", "in", BIT), port("a", "in", ta), port("o", "out", td)]
                en = entity(name, ports, [obj("fa", "signal", formal), obj("fo", "signal", formal)],
                            [conc_ctx("wire_in", [assign("next", "fa", ref("a"))]), conc_ctx("sub", [assign("next", "fo", ref("fa"))]),
                             conc_ctx("wire_out", [assign("next", "o", ref("fo"))])])
                en["source_override"] = src
                en["family"] = f"portconn-{'same' if outer == formal else 'diff'}-{side}:{tname(outer)}<>{tname(formal)}"
                en["may_reject"] = outer != formal          # requiring identical types at a port is a legitimate rule
                ents.append(en)
                k += 1
    return ents


def build(tier):
    maxw = 2 if tier == "quick" else 3
    ents = []
    k = 0
    srcs = sources(maxw + 1)
    for src in srcs:
        for dst in types(maxw + 1):
            forms = FORMS if tier != "quick" else [FORMS[(k + i) % len(FORMS)] for i in range(2)] + [FORMS[0]]
            seen = set()
            for form in forms:
                if form[0] in seen:
                    continue
                seen.add(form[0])
                ents.append(make(f"E05_{k:04d}", src, dst, form))
                k += 1
    ents += slice_forms("E05", k, maxw + 1)
    ents += merge_and_view_forms("E05", len(ents), tier)
    ents += local_init_forms("E05", len(ents), tier)
    ents += portconn_forms("E05", len(ents), tier)
    return ents


def run(tier):
    t0 = time.time()
    ents = build(tier)
    V = vlib.Verdict("C05")
    with vlib.Scratch() as scratch:
        # --- part 1: verdicts.  spec verdict (TLC) versus compiler verdict for every pair x form
        obs = vlib.compile_entities(ents, scratch, tag="gc05", per_module=25)
        recs = [{"id": e["name"], "adl": e, "inputs": input_space(e), "clk": "clk"} for e in ents]
        res = vlib.run_tlc_shards("MC_Verdict.tla", "MC_Verdict.cfg", [{"designs": s} for s in vlib.shard(recs, vlib.NCPU)],
                                  scratch, timeout=900)
        spec_verdict = {}
        for r in res:
            if r["timeout"] or r["parsed"]["errors"]:
                V.machinery_error("MC_Verdict: " + " / ".join(r["parsed"]["errors"][:3]) + r["out"][-400:])
            spec_verdict.update(r["parsed"]["case"])
        agree = 0
        accepted = []
        by = {e["name"]: e for e in ents}
        for e in ents:
            ob = obs[e["name"]]
            sv = spec_verdict.get(e["name"])
            if sv is None:
                V.machinery_error(f"no spec verdict for {e['name']}")
                continue
            if ob["outcome"] == "crash":
                V.machinery_error(f"generated module broken: {ob['error']['msg']}")
                continue
            spec_accepts = sv == ""
            if not spec_accepts and not sv.startswith("reject:"):
                V.machinery_error(f"spec error for {e['family']}: {sv}")
                continue
            impl_accepts = ob["outcome"] == "accepted"
            if spec_accepts == impl_accepts or (e.get("may_reject") and not impl_accepts):
                agree += 1
                if impl_accepts:
                    accepted.append(e)
            elif impl_accepts:
                V.violation(f"accepted-but-must-be-rejected:{e['family']}|{sv}",
                            {"clause": "Rejected(" + sv + ")", "adl": e, "source_py": to_python(e), "vhdl": ob["vhdl"]})
            else:
                V.violation(f"rejected-but-value-preserving:{e['family']}|{ob['error']['cls']}: {ob['error']['msg'][:120]}",
                            {"clause": "Accepted", "adl": e, "source_py": to_python(e), "error": ob["error"]})
        # --- part 2: values.  every accepted design, every source value: emitted target value = Convert
        V2, cov = product.run("C05", tier, accepted, lambda e: 1, scratch, timeout=1500, verdict=V, finish=False)
    cov.update({"verdict_cases": len(ents), "verdict_agreements": agree,
                "disagreements_checked": len(ents), "programs": len(ents),
                "rule": "all ordered pairs (source kind/width or literal, target kind/width) x assignment forms; the compiler's "
                        "accept/reject verdict is compared with CoSem.CConvert evaluated by TLC, and every accepted design is "
                        "model-checked against it for every source value"})
    rc = V.finish()
    vlib.write_evidence("C05", tier, "model_checking", cov, time.time() - t0, len(V.new), product.ASSUMPTIONS)
    return rc
