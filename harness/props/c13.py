"""C13: parametrised types are canonical and form the documented subtype lattice (any order of first use)."""
import os, json, time, re, subprocess, random
import concurrent.futures as cf
import vlib


def tlc_behaviours(scratch, maxlen):
    env = dict(os.environ)
    cfg = open(os.path.join(vlib.SPEC, "mc", "MC_TypeLattice.cfg")).read()
    md = os.path.join(scratch, "tl")
    os.makedirs(md, exist_ok=True)
    # the bound is a definition override, so the module text stays the single source of truth
    mod = open(os.path.join(vlib.SPEC, "mc", "MC_TypeLattice.tla")).read().replace("MCMaxLen == 4", f"MCMaxLen == {maxlen}")
    open(os.path.join(md, "MC_TypeLattice.tla"), "w").write(mod)
    open(os.path.join(md, "MC_TypeLattice.cfg"), "w").write(cfg)
    cmd = ["java", "-XX:+UseParallelGC", "-Xss64m", "-Xmx4g", f"-DTLA-Library={vlib.SPEC}:{os.path.join(vlib.SPEC, 'mc')}",
           "-cp", vlib.TLA_CP, "tlc2.TLC", "-workers", "1", "-metadir", os.path.join(md, "meta"), "-noGenerateSpecTE",
           "-config", os.path.join(md, "MC_TypeLattice.cfg"), os.path.join(md, "MC_TypeLattice.tla")]
    p = subprocess.run(cmd, capture_output=True, text=True, timeout=1800, cwd=md)
    out = p.stdout + p.stderr
    behs = [json.loads(json.loads('"' + m.group(1) + '"')) for m in re.finditer(r'<<"CASE", "((?:[^"\\]|\\.)*)">>', out)]
    m = re.search(r'<<\s*"INFO",\s*"sub",\s*"((?:[^"\\]|\\.)*)"\s*>>', out, re.S)
    sub = json.loads(json.loads('"' + m.group(1) + '"')) if m else None
    st = re.search(r"(\d+) states generated, (\d+) distinct states found", out)
    ok = "Model checking completed. No error has been found" in out
    return behs, sub, (int(st.group(1)), int(st.group(2))) if st else (0, 0), ok, out


def replay_shard(args):
    i, behs, sub, scratch, mode = args
    jf, of = os.path.join(scratch, f"c13_{mode}_{i}.json"), os.path.join(scratch, f"c13_{mode}_{i}.out.json")
    json.dump({"behaviours": behs, "sub": sub, "mode": mode}, open(jf, "w"))
    env = dict(os.environ, PYTHONPATH=vlib.REPO, PYTHONHASHSEED="0")
    p = subprocess.run([vlib.VENV_PY, os.path.join(vlib.VERIF, "harness", "pyobs_c13.py"), jf, of], env=env,
                       capture_output=True, text=True, cwd=scratch)
    if p.returncode != 0:
        return {"error": p.stderr[-1500:]}
    return json.load(open(of))


def run(tier):
    t0 = time.time()
    V = vlib.Verdict("C13")
    with vlib.Scratch() as scratch:
        behs, sub, (gen, dist), ok, out = tlc_behaviours(scratch, 3 if tier == "quick" else 4)
        if not ok or sub is None:
            # an invariant of the specification itself failed or TLC broke: machinery, not the implementation
            V.machinery_error("TypeLattice spec run failed: " + out[-800:])
        # all behaviours in interpreters whose class caches are restored to import-time content before each one;
        # a seeded sample additionally in freshly forked interpreters (fork throughput is ~200/s on this host)
        rng = random.Random(vlib.seed() + 13)
        sample = rng.sample(behs, min(len(behs), 800 if tier == "quick" else 8000))
        jobs = [(i, s, sub, scratch, "reset") for i, s in enumerate(vlib.shard(behs, vlib.NCPU))]
        jobs += [(i, s, sub, scratch, "fork") for i, s in enumerate(vlib.shard(sample, 2))]
        replayed = 0
        with cf.ThreadPoolExecutor(vlib.NCPU) as ex:
            for r in ex.map(replay_shard, jobs):
                if "error" in r:
                    V.machinery_error("replay driver: " + r["error"])
                    continue
                replayed += r["replayed"]
                for f in r["failures"]:
                    V.violation(f"{f['clause']}:{f['detail']}|{'>'.join(f['behaviour'])}", f)
        views = views_part(tier, scratch, V)
    cov = {"states": dist, "transitions": gen, "traces_validated_against_impl": replayed + views["replayed"],
           "samples": [[f"{t['q']}:{t['k']}:{t['w']}" for t in b] for b in behs[:: max(1, len(behs) // 3)][:3]] + views["samples"],
           "evaluations": replayed + views["replayed"], "distinct_nontrivial": len({json.dumps(b) for b in behs}),
           "rule": "TLC enumerates every sequence (with repetitions) of type expressions of the universe up to the length bound; each is "
                   "replayed in a freshly forked interpreter, comparing identity and the full issubclass matrix after every step; "
                   "view sequences (create view / write root / write view) are enumerated by TLC and replayed on real objects",
           "universe": 23, "max_len": 3 if tier == "quick" else 4, "view_behaviours": views["replayed"], "exhaustive": True}
    rc = V.finish()
    vlib.write_evidence("C13", tier, "model_checking", cov, time.time() - t0, len(V.new),
                        ["spec/TypeLattice.tla transcribes the lattice sentence of C13", "spec/Views.tla transcribes the aliasing sentence",
                         "harness/pyobs_c13.py maps type expressions to the public constructors", "TLC"])
    return rc


def views_part(tier, scratch, V):
    replayed = 0
    samples = []
    for rq, rk in (("signal", "bv"), ("variable", "u")) + ((("signal", "s"),) if tier != "quick" else ()):
        md = os.path.join(scratch, f"views_{rq}_{rk}")
        os.makedirs(md, exist_ok=True)
        cfg = open(os.path.join(vlib.SPEC, "mc", "MC_Views.cfg")).read().replace('RootKind = "bv"', f'RootKind = "{rk}"')
        if tier != "quick":
            cfg = cfg.replace("MaxSteps = 3", "MaxSteps = 4")
        open(os.path.join(md, "MC_Views.cfg"), "w").write(cfg)
        cmd = ["java", "-XX:+UseParallelGC", "-Xss64m", "-Xmx6g", f"-DTLA-Library={vlib.SPEC}:{os.path.join(vlib.SPEC, 'mc')}",
               "-cp", vlib.TLA_CP, "tlc2.TLC", "-workers", "1", "-metadir", os.path.join(md, "meta"), "-noGenerateSpecTE",
               "-config", os.path.join(md, "MC_Views.cfg"), os.path.join(vlib.SPEC, "mc", "MC_Views.tla")]
        p = subprocess.run(cmd, capture_output=True, text=True, timeout=3000, cwd=md)
        out = p.stdout + p.stderr
        if "Model checking completed. No error has been found" not in out:
            V.machinery_error("Views spec run failed: " + out[-600:])
            continue
        behs = [json.loads(json.loads('"' + m.group(1) + '"')) for m in re.finditer(r'<<"CASE", "((?:[^"\\]|\\.)*)">>', out)]
        if tier != "quick":
            rng = random.Random(vlib.seed() + 7)
            behs = rng.sample(behs, min(len(behs), 200000))

        def one(args):
            i, sh = args
            jf, of = os.path.join(md, f"v_{i}.json"), os.path.join(md, f"v_{i}.out.json")
            json.dump({"root": {"q": rq, "k": rk, "w": 4}, "behaviours": sh}, open(jf, "w"))
            env = dict(os.environ, PYTHONPATH=vlib.REPO, PYTHONHASHSEED="0")
            pr = subprocess.run([vlib.VENV_PY, os.path.join(vlib.VERIF, "harness", "pyobs_views.py"), jf, of], env=env,
                                capture_output=True, text=True, cwd=md)
            return {"error": pr.stderr[-1200:]} if pr.returncode != 0 else json.load(open(of))

        with cf.ThreadPoolExecutor(vlib.NCPU) as ex:
            for r in ex.map(one, list(enumerate(vlib.shard(behs, vlib.NCPU)))):
                if "error" in r:
                    V.machinery_error("views replay driver: " + r["error"])
                    continue
                replayed += r["replayed"]
                for f in r["failures"]:
                    V.violation(f"views-{f['clause']}:{rq}[{rk}]:{f['detail']}|{'>'.join(f['behaviour'])}", f)
        if behs:
            samples.append([f"{s['op']}({s['on']},{s['kind']},{s['a']},{s['b']})" for s in behs[len(behs) // 2]])
    return {"replayed": replayed, "samples": samples}
