"""C15: SyncFlag and Mailbox hand over every event exactly once."""
import os, json, time, re
import vlib, product

HEADER = '''from __future__ import annotations
import cohdl
from cohdl import Bit, BitVector, Unsigned, Signed, Port, Signal, Variable, Null, Full
from cohdl import std
'''
MAILBOX = '''
class {name}(cohdl.Entity):
{clkports}
    send = Port.input(Bit)
    recv = Port.input(Bit)
    din = Port.input(BitVector[{w}])
    dout = Port.output(BitVector[{w}], default=Null)
    accsend = Port.output(Bit, default=False)
    accrecv = Port.output(Bit, default=False)

    def architecture(self):
        mb = std.Mailbox[BitVector[{w}]]({args})
{body}
'''
MAILBOX_TWO = '''
        @std.sequential(std.Clock(self.{ca}))
        def sender():
            if self.send and mb.is_clear():
                mb.send(self.din)
                self.accsend ^= True

        @std.sequential(std.Clock(self.{cb}))
        def receiver():
            if self.recv and mb.is_set():
                self.dout <<= mb.data()
                mb.clear()
                self.accrecv ^= True
'''
MAILBOX_ONE = '''
        @std.sequential(std.Clock(self.clk))
        def both():
            if self.send and mb.is_clear():
                mb.send(self.din)
                self.accsend ^= True
            if self.recv and mb.is_set():
                self.dout <<= mb.data()
                mb.clear()
                self.accrecv ^= True
'''
FLAG = '''
class {name}(cohdl.Entity):
{clkports}
    send = Port.input(Bit)
    recv = Port.input(Bit)
    din = Port.input(BitVector[1])
    accsend = Port.output(Bit, default=False)
    accrecv = Port.output(Bit, default=False)

    def architecture(self):
        flag = std.SyncFlag({args})

        @std.sequential(std.Clock(self.{ca}))
        def sender():
            if self.send and flag.is_clear():
                flag.set()
                self.accsend ^= True

        @std.sequential(std.Clock(self.{cb}))
        def receiver():
            if self.recv and flag.is_set():
                flag.clear()
                self.accrecv ^= True
'''
FLAG_UNGUARDED = '''
class {name}(cohdl.Entity):
{clkports}
    send = Port.input(Bit)
    recv = Port.input(Bit)
    din = Port.input(BitVector[1])
    accsend = Port.output(Bit, default=False)
    accrecv = Port.output(Bit, default=False)

    def architecture(self):
        flag = std.SyncFlag({args})

        @std.sequential(std.Clock(self.{ca}))
        def sender():
            # the producer calls set() whenever asked, also while it still observes the flag as set:
            # "a set issued while the flag is already set has no effect" - only a set on a clear flag counts as sent
            if self.send:
                if flag.is_clear():
                    self.accsend ^= True
                flag.set()

        @std.sequential(std.Clock(self.{cb}))
        def receiver():
            if self.recv and flag.is_set():
                flag.clear()
                self.accrecv ^= True
'''
FLAG_CORO = '''
class {name}(cohdl.Entity):
{clkports}
    send = Port.input(Bit)
    recv = Port.input(Bit)
    din = Port.input(BitVector[1])
    accsend = Port.output(Bit, default=False)
    accrecv = Port.output(Bit, default=False)

    def architecture(self):
        flag = std.SyncFlag({args})

        @std.sequential(std.Clock(self.{ca}))
        async def sender():
            await self.send
            flag.set()
            self.accsend ^= True
            await flag.is_clear()

        @std.sequential(std.Clock(self.{cb}))
        async def receiver():
            await self.recv
            await flag.receive()
            self.accrecv ^= True
'''


def configs(tier):
    cfgs = []
    delays = [(0, 0), (1, 1), (0, 1), (1, 0), (2, 2)] if tier == "quick" else [(t, r) for t in range(4) for r in range(4)]
    for tx, rx in delays:
        args = "" if (tx, rx) == (0, 0) else f"tx_delay={tx}, rx_delay={rx}"
        cfgs.append(dict(kind="mailbox", w=1, args=args, ctx="two", two=0))
        cfgs.append(dict(kind="flag", w=1, args=args, ctx="two", two=0))
        cfgs.append(dict(kind="flag_unguarded", w=1, args=args, ctx="two", two=0))
        if tx == rx and tx <= 1:
            cfgs.append(dict(kind="mailbox", w=2, args=args, ctx="two", two=0))
            if (tx, rx) == (0, 0):
                # "std.SyncFlag with delay cannot be set and cleared in the same context" (asserted by the library)
                cfgs.append(dict(kind="mailbox", w=1, args=args, ctx="one", two=0))
        if tx >= 1 and rx >= 1:
            # two unrelated clocks: every step is one tick of either clock
            cfgs.append(dict(kind="mailbox", w=1, args=args, ctx="two", two=1))
            cfgs.append(dict(kind="flag", w=1, args=args, ctx="two", two=1))
    return cfgs


def source(name, c):
    two = c["two"]
    clkports = "    clka = Port.input(Bit)\n    clkb = Port.input(Bit)" if two else "    clk = Port.input(Bit)"
    ca, cb = ("clka", "clkb") if two else ("clk", "clk")
    if c["kind"] == "mailbox":
        body = MAILBOX_ONE if c["ctx"] == "one" else MAILBOX_TWO.format(ca=ca, cb=cb)
        return MAILBOX.format(name=name, clkports=clkports, w=c["w"], args=c["args"], body=body)
    tmpl = FLAG_UNGUARDED if c["kind"] == "flag_unguarded" else FLAG
    return tmpl.format(name=name, clkports=clkports, args=c["args"], ca=ca, cb=cb)


def run(tier):
    t0 = time.time()
    V = vlib.Verdict("C15")
    cfgs = configs(tier)
    budget = 8000 if tier == "quick" else 80000
    with vlib.Scratch() as scratch:
        # design level: the user-facing property over the specification's own variables, before any implementation is involved
        dl_ok, dl_gen, dl_dist, dl_out = vlib.run_design_level("MC_HandoverDesign.tla", "MC_HandoverDesign.cfg", scratch)
        if not dl_ok:
            V.machinery_error("design-level check of the specification failed (Handover.tla: exactly once, in order): " + dl_out[-500:])
        lv_ok, lv_gen, lv_dist, lv_out = vlib.run_design_level("MC_HandoverLive.tla", "MC_HandoverLive.cfg", scratch)
        if not lv_ok:
            V.machinery_error("design-level liveness check of the specification failed (Handover.tla: eventual reception under a fair consumer): " + lv_out[-500:])
        mods = []
        for i, c in enumerate(cfgs):
            c["name"] = f"E15_{i:03d}"
            mods.append({"name": f"gc15_{i:03d}", "source": HEADER + source(c["name"], c), "entities": [c["name"]]})
        obs = vlib.compile_modules(mods, scratch)
        designs = []
        for c in cfgs:
            ob = vlib.read_obs(obs[c["name"]])
            fam = f"{c['kind']}[W={c['w']},{c['args'] or 'no-delay'},{c['ctx']}-ctx,{'two-clocks' if c['two'] else 'one-clock'}]"
            c["fam"] = fam
            if ob["outcome"] != "accepted":
                V.violation(f"wrapper-rejected:{fam}|{ob['error']['cls']}: {ob['error']['msg'][:150]}",
                            {"clause": "WrapperAccepted", "source_py": source(c["name"], c), "error": ob["error"], "tb": ob.get("tb", "")})
                continue
            if ob["reader"] != "ok":
                V.machinery_error(f"reader {ob['reader']} on {fam}: {ob['reader_msg']}")
                continue
            designs.append({"id": c["name"], "w": c["w"], "twoclocks": c["two"], "payload": 1 if c["kind"] == "mailbox" else 0,
                            "budget": budget, "ast": ob["ast"], "top": c["name"].lower()})
        res = vlib.run_tlc_shards("MC_Handover.tla", "MC_Handover.cfg", [{"designs": [d]} for d in designs], scratch,
                                  timeout=1500 if tier == "quick" else 7000)
        gen = dist = 0
        stats, viols = {}, []
        for r in res:
            p = r["parsed"]
            gen += p["generated"]
            dist += p["distinct"]
            stats.update(p["stat"])
            viols += p["viol"]
            if r["timeout"]:
                V.machinery_error("MC_Handover timeout " + r["obsfile"])
            elif not p["finished"] or (p["errors"] and not p["viol"]):
                V.machinery_error("MC_Handover: " + " / ".join(p["errors"][:3]) + r["out"][-500:])
        by = {d["id"]: d for d in designs}
        fam = {c["name"]: c["fam"] for c in cfgs}
        first = []
        seen = set()
        for did, err in viols:
            if err not in seen and len(first) < 6:
                seen.add(err)
                first.append((did, err))
        rres = vlib.run_tlc_shards("MC_Handover.tla", "MC_Handover_replay.cfg", [{"designs": [by[d]]} for d, _ in first], scratch, timeout=600) if first else []
        traces = {d: re.findall(r"/\\ last = (\[[^\n]*\])", rr["out"]) for (d, _), rr in zip(first, rres)}
        for did, err in viols:
            V.violation(f"{err}:{fam[did]}|{did}", {"clause": err, "config": fam[did], "moves": traces.get(did, []),
                                                     "source_py": source(did, next(c for c in cfgs if c["name"] == did))})
    trunc = [fam[k] for k, v in stats.items() if v[0] >= budget]
    cov = {"states": dist, "transitions": gen, "traces_validated_against_impl": len(designs), "configurations": len(cfgs),
           "evaluations": gen, "design_level": {"what": "Handover.tla: exactly once, in order", "states": dl_dist, "transitions": dl_gen},
           "design_level_liveness": {"what": "Handover.tla under a weakly fair consumer: every payload sent is eventually received; the slot clears again", "states": lv_dist}, "distinct_nontrivial": sum(1 for v in stats.values() if v[1] >= 2),
           "samples": [c["fam"] for c in cfgs[:: max(1, len(cfgs) // 4)][:4]], "truncated_configurations": trunc,
           "budget_transitions": budget, "exhaustive": not trunc,
           "rule": "wrapper per configuration (Mailbox / SyncFlag, payload width, tx/rx delay, one or two contexts, one clock or two "
                   "unrelated clocks); every per-step choice of which clock ticks, whether the producer attempts to send (and what) and "
                   "whether the consumer is willing to receive; complete reachable product with the one-slot abstraction unless truncated"}
    rc = V.finish()
    vlib.write_evidence("C15", tier, "model_checking", cov, time.time() - t0, len(V.new),
                        product.ASSUMPTIONS[:2] + ["spec/Handover.tla transcribes the C15 statement", "hand-written wrapper templates", "TLC"])
    return rc
