"""C18: std combinational helpers compute their mathematical definition."""
import os, json, time, subprocess, collections
import vlib, product, gen_expr
from adl import *  # noqa


def wrapper_designs(tier):
    """compiled concurrent (and clocked) wrappers: helper applied to run-time ports, all input values"""
    ents = []
    k = 0
    maxw = 5 if tier == "quick" else 6
    a, b, c = ref("a"), ref("b"), ref("c")

    def add(tag, in_ports, exprs):
        nonlocal k
        e = gen_expr.mk_entity(f"E18_{k:04d}", in_ports, exprs)
        e["family"] = tag
        ents.append(e)
        k += 1

    for kind in ("bv", "u"):
        for w in range(1, maxw + 1):
            t = T(kind, w)
            cw = T("u", w.bit_length())
            ex = [(cw, call(f, [a])) for f in ("count_set_bits", "count_clear_bits", "count_trailing_zeros", "count_trailing_ones",
                                               "count_leading_zeros", "count_leading_ones")]
            ex += [(BIT, call("is_one_hot", [a])), (T("bv", w), call("reverse_bits", [a]))]
            add(f"cnt_{kind}{w}", [("a", t)], ex)
            ex = []
            for n in range(0, w + 1):
                ex += [(T("bv", w), call("rol", [a], [n])), (T("bv", w), call("ror", [a], [n]))]
            for f_ in (1, 2, 3):
                ex += [(T("bv", w * f_), call("stretch", [a], [f_])), (T("bv", w * f_), call("repeat", [a], [f_]))]
            ex += [(T("bv", w + 2), call("leftpad", [a], [w + 2])), (T("bv", w + 1), call("rightpad", [a], [w + 1]))]
            for i in range(0, len(ex), 10):
                add(f"rot_{kind}{w}_{i}", [("a", t)], ex[i:i + 10])
    for w in (1, 2, 3):
        t = T("bv", w)
        for fw in range(1, w + 1):
            add(f"fill_{w}_{fw}", [("a", t), ("b", T("bv", fw))],
                [(t, call("lshift_fill", [a, b])), (t, call("rshift_fill", [a, b]))])
        add(f"fillbit_{w}", [("a", t), ("b", BIT)], [(t, call("lshift_fill", [a, b])), (t, call("rshift_fill", [a, b]))])
        if w <= 2:
            add(f"mask_{w}", [("a", t), ("b", t), ("c", t)], [(t, call("apply_mask", [a, b, c]))])
    for n, kk in ((2, 2), (1, 3), (2, 3)):
        add(f"selb_{n}_{kk}", [("a", T("bv", n * kk)), ("b", T("bv", kk))], [(T("bv", n), call("select_batch", [a, b], [n]))])
    for w in (1, 2, 3):
        add(f"onehot_{w}", [("a", T("u", w))], [(T("bv", 1 << w), call("one_hot", [a], [1 << w]))])
    u2 = T("u", 2)
    add("minmax3", [("a", u2), ("b", u2), ("c", u2)],
        [(u2, call("minimum", [a, b, c])), (u2, call("maximum", [a, b, c])), (u2, call("min_index", [a, b, c])),
         (u2, call("max_index", [a, b, c])), (u2, call("count", [a, b, c, lit(u2, 1)]))])
    add("minmax2", [("a", u2), ("b", u2)], [(u2, call("minimum", [a, b])), (u2, call("maximum", [b, a])), (u2, call("max_index", [a, b]))])
    # choose_first / cond / select: type checked wrappers around if-expressions and select_with
    x, y, z = ref("x"), ref("y"), ref("z")
    for ty in (u2, T("bv", 2), T("s", 2)):
        tg = f"{ty['k']}{ty['w']}"
        add(f"choose_{tg}", [("x", BIT), ("y", BIT), ("a", ty), ("b", ty), ("c", ty)],
            [(ty, call("choose_first", [x, a, y, b, c], ty=ty)), (ty, call("choose_first", [bin_("land", x, y), a, bin_("lor", x, y), b, c], ty=ty)),
             (ty, call("choose_first", [x, a, b], ty=ty)), (ty, call("cond", [x, a, b], ty=ty)), (ty, call("cond", [bin_("eq", a, b), c, a], ty=ty))])
    add("select_u2", [("a", u2), ("b", u2), ("c", u2)],
        [(u2, call("select", [a, pint(0), b, pint(3), c, a], ty=u2)), (u2, call("select", [a, pint(1), c, pint(2), b, c], ty=u2))])
    for lo, hi in ((0, 3), (1, 2), (2, 6), (3, 3)):
        add(f"clamp_{lo}_{hi}", [("a", T("u", 3))], [(T("u", 3), call("clamp", [a], [lo, hi]))])
    return ents


def run(tier):
    t0 = time.time()
    V = vlib.Verdict("C18")
    maxw = 5 if tier == "quick" else 7
    with vlib.Scratch() as scratch:
        out = os.path.join(scratch, "c18.json")
        env = dict(os.environ, PYTHONPATH=vlib.REPO, PYTHONHASHSEED="0")
        p = subprocess.run([vlib.VENV_PY, os.path.join(vlib.VERIF, "harness", "pyobs_c18.py"), str(maxw), out],
                           env=env, capture_output=True, text=True, cwd=scratch)
        if p.returncode != 0:
            V.machinery_error("pyobs_c18 failed: " + p.stderr[-1500:])
            cases = []
        else:
            cases = json.load(open(out))["cases"]
        # a helper (with given parameters) that raises for EVERY input cannot be evaluated outside a
        # synthesizable context; that is recorded, not judged.  One that raises for SOME inputs is judged.
        by_f = collections.defaultdict(list)
        for c in cases:
            by_f[c["f"]].append(c)
        unavailable = sorted(f for f, cs in by_f.items() if all("err" in c for c in cs))
        judged = [c for c in cases if c["f"] not in unavailable]
        for c in judged:
            c.pop("err", None)
        shards = vlib.shard(judged, vlib.NCPU)
        res = vlib.run_tlc_shards("MC_Helpers.tla", "MC_Helpers.cfg", [{"cases": s} for s in shards], scratch, timeout=1500)
        checked = 0
        for sh, r in zip(shards, res):
            pr = r["parsed"]
            if r["timeout"] or pr["errors"] or "cases" not in pr["stat"]:
                V.machinery_error("MC_Helpers: " + " / ".join(pr["errors"][:3]) + r["out"][-600:])
                continue
            checked += pr["stat"]["cases"][0]
            for i, f in pr["viol"]:
                c = sh[i - 1]
                V.violation(f"{f}:p={c['p']}|a={c['a']} l={c['l']} -> r={c['r']} rl={c['rl']}", {"clause": f, "case": c})
        ents = wrapper_designs(tier)
        V, pcov = product.run("C18", tier, ents, lambda e: 1, scratch, timeout=2400, verdict=V, finish=False)
    shapes = {(c["f"], tuple(c["p"][:1]), tuple(a[0] for a in c["a"]), len(c["l"])) for c in judged}
    cov = {"evaluations": checked + pcov["transitions"], "distinct_nontrivial": len(shapes) + pcov["distinct_nontrivial"],
           "states": pcov["states"], "transitions": pcov["transitions"], "traces_validated_against_impl": pcov["traces_validated_against_impl"],
           "python_level_cases": checked, "compiled_wrappers": len(ents),
           "rule": "every helper x widths <= %d / list lengths <= 4 x ALL input values evaluated in Python on constants and validated "
                   "by TLC against spec/Helpers.tla; distinct_nontrivial = distinct (helper, parameter, operand widths) shapes" % maxw,
           "samples": [{k: c[k] for k in ("f", "p", "a", "l", "r")} for c in judged[:: max(1, len(judged) // 5)][:5]],
           "python_level_unavailable": unavailable, "helpers": sorted(by_f), "exhaustive": True}
    rc = V.finish()
    vlib.write_evidence("C18", tier, "model_checking", cov, time.time() - t0, len(V.new),
                        ["spec/Helpers.tla transcribes the helpers' docstrings", "harness/pyobs_c18.py records width and bits of each result", "TLC"])
    return rc
