"""Python-level observations of Duration -> clock tick conversion (C16). Runs under /venv/bin/python.

  pyobs_c16.py <tier> <out.json>
case = {"d": duration in ps, "p": clock period in ps, "how": text, "r": ticks or -1 (count_periods raised)}
Durations are built with the public unit constructors (std.ns / us / ms, Duration.picoseconds), periods from
frequencies (std.kHz / MHz / GHz -> Clock(frequency=...).period()) or from durations.
"""
import sys, json
import cohdl
from cohdl import std, Bit, Signal


def main(tier, out):
    cases = []
    units = [("ps", std.Duration.picoseconds, 1), ("ns", std.ns, 1000), ("us", std.us, 10**6), ("ms", std.ms, 10**9)]
    freqs = [("kHz", std.kHz, 1), ("MHz", std.MHz, 1000), ("GHz", std.GHz, 10**6)]
    dvals = [1, 2, 3, 4, 5, 7, 8, 10, 12, 20, 25, 30, 33, 40, 50, 64, 100, 125, 250, 500, 1000] if tier == "quick" else list(range(1, 130)) + [200, 250, 256, 500, 512, 1000, 1024, 2000]
    fvals = [1, 2, 4, 5, 8, 10, 20, 25, 40, 50, 100, 125, 200, 250, 500]
    for un, mk, ups in units:
        for dv in dvals:
            d_ps = dv * ups
            if d_ps >= 2**31:
                continue
            for fn, mkf, fk in freqs:
                for fv in fvals:
                    khz = fv * fk
                    if 10**9 % khz:
                        continue
                    p_ps = 10**9 // khz
                    if p_ps < 1:
                        continue
                    clk = std.Clock(Signal[Bit](), frequency=mkf(fv))
                    try:
                        r = mk(dv).count_periods(clk.period())
                        r = int(r) if r == int(r) else -2
                    except AssertionError:
                        r = -1
                    cases.append({"d": d_ps, "p": p_ps, "how": f"std.{un}({dv}) / std.{fn}({fv})", "r": r})
    json.dump({"cases": cases}, open(out, "w"))


if __name__ == "__main__":
    main(sys.argv[1], sys.argv[2])
