"""Design alphabet for C11 (history independence).  Imported by the replay driver under /venv/bin/python."""
from __future__ import annotations
import cohdl
from cohdl import Bit, BitVector, Unsigned, Signed, Port, Signal, Variable, Null, Full, enum
from cohdl import std


class Comb(cohdl.Entity):
    a = Port.input(Unsigned[3])
    b = Port.input(Unsigned[3])
    ready = Port.output(Bit)
    level = Port.output(Unsigned[3])

    def architecture(self):
        @std.concurrent
        def proc():
            self.ready <<= self.a < self.b
            self.level <<= self.a + self.b


class Coro(cohdl.Entity):
    clk = Port.input(Bit)
    rst = Port.input(Bit)
    go = Port.input(Bit)
    cnt = Port.output(Unsigned[3], default=0)

    def architecture(self):
        @std.sequential(std.Clock(self.clk), std.Reset(self.rst))
        async def proc():
            await self.go
            while self.go:
                self.cnt <<= self.cnt + 1
            await std.wait_for(3)
            self.cnt <<= 0


class Prefix(cohdl.Entity):
    clk = Port.input(Bit)
    d = Port.input(Bit)
    q = Port.output(Bit, default=False)

    def architecture(self):
        with std.prefix("stage"):
            s1 = Signal[Bit](False, name="reg")
            with std.prefix("inner"):
                s2 = Signal[Bit](False, name="reg")

        @std.sequential(std.Clock(self.clk))
        def proc():
            nonlocal s1, s2
            s1 <<= self.d
            s2 <<= s1
            self.q <<= s2


class Leaf(cohdl.Entity):
    x = Port.input(Bit)
    y = Port.output(Bit)

    def architecture(self):
        @std.concurrent
        def logic():
            self.y <<= ~self.x


class Hier(cohdl.Entity):
    a = Port.input(Bit)
    o = Port.output(Bit)

    def architecture(self):
        t = Signal[Bit](name="t")
        Leaf(x=self.a, y=t)
        Leaf(x=t, y=self.o)


class FifoUser(cohdl.Entity):
    clk = Port.input(Bit)
    push = Port.input(Bit)
    pop = Port.input(Bit)
    din = Port.input(BitVector[2])
    dout = Port.output(BitVector[2], default=Null)
    empty = Port.output(Bit)

    def architecture(self):
        fifo = std.Fifo[BitVector[2], 4]()

        @std.concurrent
        def logic():
            self.empty <<= fifo.empty()

        @std.sequential(std.Clock(self.clk))
        def proc():
            if self.push:
                fifo.push(self.din)
            if self.pop:
                self.dout <<= fifo.pop()


class Color(enum.Enum):
    RED = enum.auto()
    GREEN = enum.auto()
    BLUE = enum.auto()


class EnumMatch(cohdl.Entity):
    clk = Port.input(Bit)
    sel = Port.input(Unsigned[2])
    o = Port.output(Unsigned[2], default=0)

    def architecture(self):
        @std.sequential(std.Clock(self.clk))
        def proc():
            match self.sel:
                case 0:
                    self.o <<= 3
                case 1:
                    self.o <<= 2
                case _:
                    self.o <<= self.sel


# ---- rejected designs, one per stage at which the compiler can raise
class RejArch(cohdl.Entity):
    a = Port.input(Bit)
    o = Port.output(Bit)

    def architecture(self):
        raise AssertionError("rejected while executing architecture()")


class RejTrace(cohdl.Entity):
    a = Port.input(Bit)
    o = Port.output(Bit)

    def architecture(self):
        @std.concurrent
        def logic():
            x = self.a
            x = ~self.a          # assignment to an already used name
            self.o <<= x


class RejStatemachine(cohdl.Entity):
    clk = Port.input(Bit)
    a = Port.input(Bit)
    o = Port.output(Bit, default=False)

    def architecture(self):
        @std.sequential(std.Clock(self.clk))
        async def proc():
            self.o <<= self.a
            while self.a:
                if self.o:
                    continue          # continue in the first state of a loop
                await self.a


class RejDrivers(cohdl.Entity):
    clk = Port.input(Bit)
    a = Port.input(Bit)
    o = Port.output(Bit)

    def architecture(self):
        @std.concurrent
        def one():
            self.o <<= self.a

        @std.sequential(std.Clock(self.clk))
        def two():
            self.o <<= ~self.a


class RejPrefix(cohdl.Entity):
    clk = Port.input(Bit)
    a = Port.input(Bit)
    o = Port.output(Bit)

    def architecture(self):
        @std.sequential(std.Clock(self.clk))
        def proc():
            with std.prefix("opened"):
                s = Signal[Bit](name="inside")
                s <<= self.a
                self.o <<= self.a + 1      # rejected while the prefix scope is open


class RejTemporary(cohdl.Entity):
    clk = Port.input(Bit)
    a = Port.input(Bit)
    o = Port.output(Bit, default=False)

    def architecture(self):
        @std.sequential(std.Clock(self.clk))
        async def proc():
            t = self.a & self.o
            await self.a
            self.o <<= t              # intermediate crosses a state boundary


# ---- designs through the call / return / sub-coroutine paths of the IR generator (class-level collectors for returned,
# breaking and continuing blocks), accepted and rejected in the middle of such a call
class FnReturn(cohdl.Entity):
    clk = Port.input(Bit)
    a = Port.input(Bit)
    sel = Port.input(Unsigned[2])
    o = Port.output(Unsigned[2], default=0)

    def architecture(self):
        def pick(x):
            if self.a:
                return x + 1
            match x:
                case 0:
                    return x + 2
                case _:
                    return x - 1

        def on_rst():
            self.o <<= 2

        @std.sequential(std.Clock(self.clk), std.Reset(self.a), on_reset=on_rst)
        def proc():
            self.o <<= pick(self.sel)


class SubCoro(cohdl.Entity):
    clk = Port.input(Bit)
    a = Port.input(Bit)
    b = Port.input(Bit)
    o = Port.output(Unsigned[2], default=0)

    def architecture(self):
        async def scan(x, y):
            while x:
                self.o <<= self.o + 1
                if y:
                    return
            self.o <<= 3

        @std.sequential(std.Clock(self.clk))
        async def proc():
            while True:
                await scan(self.a, self.b)
                self.o <<= 0
                if self.b:
                    break
            await self.a


class RejInSubCoro(cohdl.Entity):
    clk = Port.input(Bit)
    a = Port.input(Bit)
    o = Port.output(Bit, default=False)

    def architecture(self):
        async def bad(x):
            while x:
                if self.o:
                    continue          # continue in the first state of a loop, inside an awaited sub-coroutine
                await x
            return

        @std.sequential(std.Clock(self.clk))
        async def proc():
            while True:
                self.o <<= self.a
                await bad(self.a)
                if self.a:
                    break


class RejInCall(cohdl.Entity):
    clk = Port.input(Bit)
    a = Port.input(Bit)
    o = Port.output(Bit, default=False)

    def architecture(self):
        def inner(x):
            t = x & self.o
            if x:
                return t
            t = ~x                    # assignment to an already used name, two calls deep
            return t

        def outer(x):
            if self.o:
                return inner(x)
            return x

        @std.sequential(std.Clock(self.clk))
        def proc():
            self.o <<= outer(self.a)


ALPHABET = {
    "fn_return": (FnReturn, {}), "sub_coro": (SubCoro, {}), "rej_in_subcoro": (RejInSubCoro, {}), "rej_in_call": (RejInCall, {}),
    "comb": (Comb, {}), "coro": (Coro, {}), "prefix": (Prefix, {}), "hier": (Hier, {}), "fifo": (FifoUser, {}),
    "reserved_opt": (Comb, {"additional_reserved_names": {"ready", "level", "proc"}}), "enum_match": (EnumMatch, {}),
    "rej_arch": (RejArch, {}), "rej_trace": (RejTrace, {}), "rej_statemachine": (RejStatemachine, {}),
    "rej_drivers": (RejDrivers, {}), "rej_prefix": (RejPrefix, {}), "rej_temporary": (RejTemporary, {}),
}
