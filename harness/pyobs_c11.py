"""Replay of CompilerState behaviours (compile histories) into the real compiler (C11). Runs under /venv/bin/python.

  pyobs_c11.py <job.json> <out.json>
job: {"histories": [[name, ...], ...], "reference": {name: sha256 or "REJECTED:<cls>"} | null}
With reference = null the driver computes the reference itself: every design compiled once in its own freshly
forked interpreter.  Every history runs in ONE freshly forked interpreter; after every step
  * the projected module-level scratch state must equal its import-time value (AtRest),
  * the outcome (bytes of the VHDL, or rejection) must equal the reference outcome of that design (Pure).
"""
import sys, os, json, hashlib

sys.path.insert(0, os.path.dirname(os.path.abspath(__file__)))


def scratch_state():
    """projection of the compiler's module-level scratch state (DESIGN.md A.7); caches are deliberately excluded"""
    import cohdl
    from cohdl._core._ir import _repr as ir
    from cohdl._compiler.frontend import _generate_ir as gi, _prepare_ast as pa
    from cohdl._core import _context as cx
    from cohdl.std import _prefix as px, _context as sc

    def short(v):
        if v is None or isinstance(v, (bool, int, str)):
            return v
        if isinstance(v, (list, dict, set, tuple)):
            return f"{type(v).__name__}[{len(v)}]"
        return type(v).__name__

    st = {
        "StatemachineContext._singleton": short(ir.StatemachineContext._singleton),
        "IrGenerator.returned_blocks": short(gi.IrGenerator.returned_blocks),
        "IrGenerator._break_result": short(gi.IrGenerator._break_result),
        "IrGenerator._continue_result": short(gi.IrGenerator._continue_result),
        "_prepare_ast._parent_frame": short(pa._parent_frame),
        "_prepare_ast._inline_declared_entities": short(pa._inline_declared_entities),
        "_prepare_ast._return_stack": short(getattr(pa._return_stack, "_stack", None)),
        "_context._block_stack": short(cx._block_stack),
        "_context._entity_instantiation_handler": short(cx._entity_instantiation_handler),
        "_context._on_register_inline_entity_handler": short(cx._on_register_inline_entity_handler),
        "_Prefix._prefix_scope": short(px._Prefix._prefix_scope),
        "std._context._current_context": short(sc._current_context),
        "std._context._current_context_data": short(sc._current_context_data),
    }
    if hasattr(pa, "_active_converter_instance"):
        st["_prepare_ast._active_converter_instance"] = short(pa._active_converter_instance)
    if hasattr(ir.Statement, "_current_frame"):
        st["Statement._current_frame"] = short(ir.Statement._current_frame)
    return st


def compile_one(name):
    import c11_designs
    from cohdl import std
    cls, opts = c11_designs.ALPHABET[name]
    try:
        text = std.VhdlCompiler.to_string(cls, **opts)
        return hashlib.sha256(text.encode()).hexdigest()
    except BaseException as e:  # noqa
        return f"REJECTED:{type(e).__name__}:{str(e)[:60]}"


def in_fork(fn):
    r, w = os.pipe()
    pid = os.fork()
    if pid == 0:
        os.close(r)
        try:
            res = fn()
        except BaseException as e:  # noqa
            res = {"crash": f"{type(e).__name__}: {e}"[:200]}
        with os.fdopen(w, "w") as fh:
            fh.write(json.dumps(res))
        os._exit(0)
    os.close(w)
    with os.fdopen(r) as fh:
        data = fh.read()
    os.waitpid(pid, 0)
    return json.loads(data) if data else {"crash": "child died"}


def replay(hist, ref, rest):
    """the property is about OUTCOMES: a violation is an outcome that differs from the design's outcome alone.
    Scratch state left behind (the specification's AtRest invariant) is recorded as a diagnosis, it explains a
    violation but is not one by itself."""
    leaks = []
    for i, name in enumerate(hist):
        out = compile_one(name)
        exp = ref[name]
        # a rejection is compared by class only (messages may quote object ids)
        same = out == exp if not exp.startswith("REJECTED") else out.split(":")[:2] == exp.split(":")[:2]
        now = scratch_state()
        diff = sorted(k for k in rest if rest[k] != now[k])
        if not same:
            return {"step": i, "clause": "Pure", "design": name, "leaks": leaks,
                    "detail": f"outcome after history {hist[:i]} is {out[:90]}, alone it is {exp[:90]}"}
        if diff:
            leaks.append([name, diff])
    return {"ok": True, "leaks": leaks} if leaks else None


def main():
    job = json.load(open(sys.argv[1]))
    import cohdl
    from cohdl import std  # noqa
    import c11_designs
    rest = scratch_state()
    ref = job.get("reference")
    if ref is None:
        ref = {n: in_fork(lambda n=n: compile_one(n)) for n in c11_designs.ALPHABET}
    failures = []
    leaks = {}
    n = 0
    for hist in job["histories"]:
        res = in_fork(lambda: replay(hist, ref, rest))
        n += 1
        if res and res.get("ok"):
            for nm, diff in res["leaks"]:
                leaks.setdefault(nm, set()).update(diff)
        elif res:
            res["history"] = hist
            failures.append(res)
    json.dump({"replayed": n, "reference": ref, "failures": failures[:300], "leaks": {k: sorted(v) for k, v in leaks.items()}, "nfail": len(failures), "hashseed": os.environ.get("PYTHONHASHSEED")},
              open(sys.argv[2], "w"))


if __name__ == "__main__":
    main()
