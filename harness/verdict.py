"""Shared runner for acceptance-verdict properties (C07, C08): compiler verdict vs spec verdict (MC_Verdict),
static predicates on accepted designs (MC_Static) and the refinement product on accepted designs."""
import json, time
import vlib, product
import adl as ADL


def run(prop, tier, ents, rule, static_clauses=("drivers", "variables"), extra_assumptions=(), maxdepth=0, product_budget=None):
    t0 = time.time()
    V = vlib.Verdict(prop)
    by = {e["name"]: e for e in ents}
    with vlib.Scratch() as scratch:
        obs = vlib.compile_entities(ents, scratch, tag="g" + prop.lower(), per_module=6)
        recs = [{"id": e["name"], "adl": e, "inputs": ADL.input_space(e), "clk": "clk"} for e in ents if "source_override" not in e or e.get("adl_is_reference")]
        res = vlib.run_tlc_shards("MC_Verdict.tla", "MC_Verdict.cfg", [{"designs": s} for s in vlib.shard(recs, vlib.NCPU)], scratch, timeout=1200)
        spec_verdict = {}
        for r in res:
            if r["timeout"] or r["parsed"]["errors"]:
                V.machinery_error("MC_Verdict: " + " / ".join(r["parsed"]["errors"][:3]) + r["out"][-500:])
            spec_verdict.update(r["parsed"]["case"])
        agree = 0
        accepted = []
        for e in ents:
            ob = obs[e["name"]]
            if ob["outcome"] == "crash":
                V.machinery_error(f"generated module broken ({e['family']}): {ob['error']['msg']}")
                continue
            sv = e.get("expected_verdict", spec_verdict.get(e["name"]))
            if sv is None:
                V.machinery_error(f"no spec verdict for {e['name']} ({e['family']})")
                continue
            if sv != "" and not sv.startswith("reject:"):
                V.machinery_error(f"spec error for {e['family']}: {sv}")
                continue
            impl_accepts = ob["outcome"] == "accepted"
            if (sv == "") == impl_accepts:
                agree += 1
                if impl_accepts:
                    accepted.append(e)
            elif impl_accepts:
                V.violation(f"accepted-but-must-be-rejected:{e['family']}|{sv}",
                            {"clause": "Rejected(" + sv + ")", "adl": e, "source_py": product.SRC(e), "vhdl": ob["vhdl"]})
                accepted.append(e)   # its emitted architecture is still inspected below
            else:
                V.violation(f"rejected-but-in-the-supported-subset:{e['family']}|{ob['error']['cls']}: {ob['error']['msg'][:140]}",
                            {"clause": "Accepted", "adl": e, "source_py": product.SRC(e), "error": ob["error"], "tb": ob.get("tb", "")})
        # static predicates on every emitted architecture
        srecs = []
        for e in accepted:
            ob = vlib.read_obs(obs[e["name"]])
            if ob["reader"] == "ok":
                srecs.append({"id": e["name"], "ast": ob["ast"], "ifaces": {}, "typecheck": 0, "top": e["name"].lower()})
        sres = vlib.run_tlc_shards("MC_Static.tla", "MC_Static.cfg", [{"designs": s} for s in vlib.shard(srecs, vlib.NCPU)], scratch, timeout=1200) if srecs else []
        static_checked = 0
        for r in sres:
            p = r["parsed"]
            if r["timeout"] or p["errors"]:
                V.machinery_error("MC_Static: " + " / ".join(p["errors"][:3]) + r["out"][-500:])
            static_checked += len(p["case"])
            for did, f in p["viol"]:
                f = json.loads(f)
                for clause in static_clauses:
                    if f.get(clause):
                        V.violation(f"static-{clause}:{by[did]['family']}|{json.dumps(f[clause])[:200]}",
                                    {"clause": clause, "items": f[clause], "source_py": product.SRC(by[did]), "vhdl": obs[did]["vhdl"]})
        # dynamic: accepted designs that the spec accepts too
        good = [e for e in accepted if e.get("expected_verdict", spec_verdict.get(e["name"])) == "" and not e.get("no_product")]
        V, cov = product.run(prop, tier, good, lambda e: maxdepth, scratch, timeout=1800, verdict=V, finish=False)
    cov.update({"verdict_cases": len(ents), "verdict_agreements": agree, "programs": len(ents), "disagreements_checked": len(ents),
                "static_designs_checked": static_checked, "rule": rule})
    rc = V.finish()
    vlib.write_evidence(prop, tier, "model_checking", cov, time.time() - t0, len(V.new),
                        product.ASSUMPTIONS + ["spec/CoAccept.tla transcribes the acceptance sentences of C07/C08",
                                               "spec/VhdlStatic.tla driver/variable predicates"] + list(extra_assumptions))
    return rc
