"""Python-level observations of serialisation (C17).  Runs under /venv/bin/python.

  pyobs_c17.py <types.json> <module dir> <out.json>
types.json: [{"name", "t": type expr}]   type expr: {"k":"leaf","w","py":..} | {"k":"arr","el","n","py":"std"|"cohdl"} | {"k":"rec","fields":[..],"names":[..],"cls": name}
The record classes are defined in a generated module (records need real source and `from __future__ import annotations`).
"""
import sys, os, json, importlib, random


def pattern(x):
    from cohdl import Bit, TypeQualifier
    v = TypeQualifier.decay(x)
    if isinstance(v, bool):
        return int(v)
    if isinstance(v, Bit):
        return 1 if v else 0
    text = repr(v.bitvector if hasattr(v, "bitvector") else v)
    body = text[text.index("(") + 1:-1]
    if set(body) - {"0", "1"}:
        return -2
    return int(body, 2)


def main():
    types = json.load(open(sys.argv[1]))
    sys.path.insert(0, sys.argv[2])
    import cohdl
    from cohdl import std, Bit, BitVector, Unsigned, Signed
    mod = importlib.import_module("c17_types")
    rng = random.Random(17)
    cases = []

    def pytype(t):
        if t["k"] == "leaf":
            return eval(t["py"], {"Bit": Bit, "BitVector": BitVector, "Unsigned": Unsigned, "Signed": Signed, "bool": bool, "std": std, "mod": mod})
        if t["k"] == "arr":
            return std.Array[pytype(t["el"]), t["n"]]
        return getattr(mod, t["cls"])

    def leaves(t, x):
        if t["k"] == "leaf":
            return [pattern(std.to_bits(x))]
        if t["k"] == "arr":
            out = []
            for i in range(t["n"]):
                out += leaves(t["el"], x.get_elem(i) if hasattr(x, "get_elem") else x[i])
            return out
        out = []
        for nm, ft in zip(t["names"], t["fields"]):
            out += leaves(ft, getattr(x, nm))
        return out

    def width(t):
        if t["k"] == "leaf":
            return t["w"]
        if t["k"] == "arr":
            return t["n"] * width(t["el"])
        return sum(width(f) for f in t["fields"])

    def build(t, ls, reverse=False):
        """construct the value field by field from leaf patterns (records by keyword, leaves via from_bits)"""
        if t["k"] == "leaf":
            w = t["w"]
            return std.from_bits[pytype(t)](BitVector[w](format(ls.pop(0), f"0{w}b")))
        if t["k"] == "arr":
            return None
        kw = {}
        for nm, ft in zip(t["names"], t["fields"]):
            v = build(ft, ls, reverse)
            if v is None:
                return None
            kw[nm] = v
        if reverse:
            # keyword arguments given out of declaration order must not change the layout
            kw = dict(reversed(list(kw.items())))
        return pytype(t)(**kw)

    for ty in types:
        t = ty["t"]
        T = pytype(t)
        w = width(t)
        pats = range(1 << w) if w <= 8 else sorted({rng.randrange(1 << w) for _ in range(200)} | {0, (1 << w) - 1})
        for b in pats:
            c = {"t": t, "name": ty["name"], "b": b, "leaves": [], "back": -1, "cnt": -1, "w2": -1, "built": -1}
            try:
                c["cnt"] = std.count_bits(T)
                x = std.from_bits[T](BitVector[w](format(b, f"0{w}b")))
                back = std.to_bits(x)
                c["w2"] = back.width
                c["back"] = pattern(back)
                c["leaves"] = leaves(t, x)
                try:
                    y = build(t, list(c["leaves"]))
                    if y is not None:
                        c["built"] = pattern(std.to_bits(y))
                        y2 = build(t, list(c["leaves"]), reverse=True)
                        if pattern(std.to_bits(y2)) != c["built"]:
                            c["built"] = -4   # differs with the keyword order
                except BaseException as e:  # noqa
                    c["built"] = -3
                    c["builderr"] = f"{type(e).__name__}: {e}"[:100]
            except BaseException as e:  # noqa
                c["err"] = f"{type(e).__name__}: {e}"[:160]
            cases.append(c)
    json.dump({"cases": cases}, open(sys.argv[3], "w"))
    print(len(cases), sum(1 for c in cases if "err" in c))


if __name__ == "__main__":
    main()
