"""Compile driver: runs under /venv/bin/python with PYTHONPATH=<repo>.

  drive.py compile <jobs.json> <out.json> [<repo>]

jobs.json : {"modules": [{"name": str, "source": str, "entities": [str, ...]}]}
out.json  : [{"module", "entity", "outcome": "accepted"|"rejected"|"crash", "error": {"cls","msg"}, "vhdl": str}]

Every entity is compiled in a forked child of a parent that has imported cohdl and the generated
module, so no compilation can influence another (history independence is C11's subject, not an
assumption of the other checks).  Pure observation: no judgement is made here.
"""
import sys, os, json, tempfile, importlib, traceback, shutil, struct


def _child_compile(mod, ent_name, wfd):
    from cohdl import std
    try:
        cls = getattr(mod, ent_name)
        text = std.VhdlCompiler.to_string(cls)
        res = {"outcome": "accepted", "vhdl": text, "error": {"cls": "", "msg": ""}}
    except BaseException as e:  # noqa
        msg = str(e)
        res = {"outcome": "rejected", "vhdl": "", "error": {"cls": type(e).__name__, "msg": msg[:500]},
               "tb": traceback.format_exc()[-1500:]}
    data = json.dumps(res).encode()
    with os.fdopen(wfd, "wb") as w:
        w.write(data)
    os._exit(0)


def compile_jobs(jobs, repo=None):
    if repo:
        sys.path.insert(0, repo)
    import cohdl  # noqa
    from cohdl import std  # noqa
    if repo:
        assert os.path.realpath(cohdl.__file__).startswith(os.path.realpath(repo)), cohdl.__file__
    tmp = tempfile.mkdtemp(prefix="cohdl_verif_")
    sys.path.insert(0, tmp)
    out = []
    try:
        for m in jobs["modules"]:
            path = os.path.join(tmp, m["name"] + ".py")
            with open(path, "w") as fh:
                fh.write(m["source"])
            try:
                mod = importlib.import_module(m["name"])
            except BaseException as e:  # noqa
                for en in m["entities"]:
                    out.append({"module": m["name"], "entity": en, "outcome": "crash", "vhdl": "",
                                "error": {"cls": type(e).__name__, "msg": ("import: " + str(e))[:500]}})
                continue
            for en in m["entities"]:
                r, w = os.pipe()
                pid = os.fork()
                if pid == 0:
                    os.close(r)
                    _child_compile(mod, en, w)
                os.close(w)
                with os.fdopen(r, "rb") as fh:
                    data = fh.read()
                os.waitpid(pid, 0)
                try:
                    res = json.loads(data.decode())
                except Exception:
                    res = {"outcome": "crash", "vhdl": "", "error": {"cls": "ChildDied", "msg": "no result from compile child"}}
                res["module"] = m["name"]
                res["entity"] = en
                out.append(res)
    finally:
        shutil.rmtree(tmp, ignore_errors=True)
    return out


def main():
    cmd = sys.argv[1]
    if cmd == "compile":
        jobs = json.load(open(sys.argv[2]))
        repo = sys.argv[4] if len(sys.argv) > 4 else None
        res = compile_jobs(jobs, repo)
        with open(sys.argv[3], "w") as fh:
            json.dump(res, fh)
    else:
        raise SystemExit("unknown command " + cmd)


if __name__ == "__main__":
    main()
