"""./check <Cxx> [--tier quick|thorough] [--replay file]"""
import sys, os, importlib, argparse, json
sys.path.insert(0, os.path.dirname(os.path.abspath(__file__)))


def main():
    ap = argparse.ArgumentParser()
    ap.add_argument("prop")
    ap.add_argument("--tier", default=os.environ.get("VERIF_TIER", "quick"))
    ap.add_argument("--replay")
    a = ap.parse_args()
    mod = importlib.import_module("props." + a.prop.lower())
    if a.replay:
        sys.exit(mod.replay(a.replay) if hasattr(mod, "replay") else _generic_replay(a.replay))
    sys.exit(mod.run(a.tier))


def _generic_replay(path):
    r = json.load(open(path))
    print(json.dumps({k: r[k] for k in r if k not in ("vhdl", "adl")}, indent=1)[:6000])
    return 0


if __name__ == "__main__":
    main()
