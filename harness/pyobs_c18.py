"""Python-level observations of the std combinational helpers on constants (C18). Runs under /venv/bin/python.

  pyobs_c18.py <maxw> <out.json>
case = {"f", "p": [ints], "a": [[w, v], ...], "l": [ints], "r": [w, v], "rl": [[w, v], ...]}
A helper that raises is recorded with r = [-1, 0] (the spec then disagrees unless it is undefined there).
"""
import sys, json, itertools, random
import cohdl
from cohdl import Bit, BitVector, Unsigned, Signed, Null, Full
from cohdl import std


def bv(w, v):
    return BitVector[w](format(v, f"0{w}b")) if w > 0 else None


def un(w, v):
    return Unsigned[w](v)


def obs(x):
    if isinstance(x, bool):
        return [1, int(x)]
    if isinstance(x, int):
        return [max(1, x.bit_length()), x]
    if isinstance(x, Bit):
        return [1, 1 if x else 0]
    x = cohdl.TypeQualifier.decay(x) if hasattr(cohdl, "TypeQualifier") else x
    text = repr(x.bitvector)
    body = text[text.index("(") + 1:-1]
    if set(body) - {"0", "1"}:
        return [-2, 0]
    return [x.width, int(body, 2)]


def main(maxw, out):
    cases = []
    rng = random.Random(18)

    def rec(f, p, a, l, fn, many=False):
        c = {"f": f, "p": p, "a": a, "l": l, "r": [-1, 0], "rl": []}
        try:
            r = fn()
            if many:
                c["rl"] = [obs(x) for x in r]
                c["r"] = [0, 0]
            else:
                c["r"] = obs(r)
        except BaseException as e:  # noqa
            c["err"] = f"{type(e).__name__}: {e}"[:120]
        cases.append(c)

    for w in range(1, maxw + 1):
        for v in range(1 << w):
            x = bv(w, v)
            for name in ("count_set_bits", "count_clear_bits", "count_trailing_zeros", "count_trailing_ones",
                         "count_leading_zeros", "count_leading_ones", "is_one_hot", "reverse_bits"):
                rec(name, [], [[w, v]], [], lambda n=name: getattr(std, n)(x))

            for bs in (2, 3):
                rec("count_set_bits", [bs], [[w, v]], [], lambda: std.count_set_bits(x, batch_size=bs))
            for n in range(0, w + 1):
                rec("rol", [n], [[w, v]], [], lambda: std.rol(x, n))
                rec("ror", [n], [[w, v]], [], lambda: std.ror(x, n))
            if w <= 4:
                for t in (1, 2, 3):
                    rec("repeat", [t], [[w, v]], [], lambda: std.repeat(x, t))
                    rec("stretch", [t], [[w, v]], [], lambda: std.stretch(x, t))
                for rw in (w, w + 1, w + 3):
                    for fill in (0, 1):
                        rec("leftpad", [rw, fill], [[w, v]], [], lambda: std.leftpad(x, rw, Bit(fill)))
                        rec("rightpad", [rw, fill], [[w, v]], [], lambda: std.rightpad(x, rw, Bit(fill)))
                    rec("leftpad", [rw, 0], [[w, v]], [], lambda: std.leftpad(x, rw))
                for l_, r_, fill in ((1, 2, 0), (2, 0, 1), (0, 3, 1), (0, 0, 0)):
                    rec("pad", [l_, r_, fill], [[w, v]], [], lambda: std.pad(x, left=l_, right=r_, fill=Bit(fill)))
                for fw in (1, 2, 3):
                    for fv in range(1 << fw):
                        if fw > w:
                            continue
                        rec("lshift_fill", [], [[w, v], [fw, fv]], [], lambda: std.lshift_fill(x, bv(fw, fv)))
                        rec("rshift_fill", [], [[w, v], [fw, fv]], [], lambda: std.rshift_fill(x, bv(fw, fv)))
                for n in (1, 2, 3):
                    rec("batched", [n], [[w, v]], [], lambda: std.batched(x, n, allow_partial=True), many=True)
        for pos in range(w):
            rec("one_hot", [w, pos], [], [], lambda: std.one_hot(w, pos))
    for w in (1, 2, 3):
        for o, n, m in itertools.product(range(1 << w), repeat=3):
            rec("apply_mask", [], [[w, o], [w, n], [w, m]], [], lambda: std.apply_mask(bv(w, o), bv(w, n), bv(w, m)))
            rec("mask_apply", [], [[w, o], [w, n], [w, m]], [], lambda: std.Mask(bv(w, m)).apply(bv(w, o), bv(w, n)))
    for ws in ((1, 1), (2, 1), (1, 3), (2, 2, 1), (3, 1, 2)):
        for _ in range(12):
            vs = [rng.randrange(1 << w) for w in ws]
            rec("concat", [], [[w, v] for w, v in zip(ws, vs)], [], lambda: std.concat(*[bv(w, v) for w, v in zip(ws, vs)]))
    for n, k in ((2, 2), (2, 3), (3, 2)):
        for v in range(1 << (n * k)):
            for j in range(k):
                rec("select_batch", [n], [[n * k, v], [k, 1 << j]], [],
                    lambda: std.select_batch(bv(n * k, v), bv(k, 1 << j), n))
    # lists of small unsigned numbers
    for ln in (1, 2, 3, 4):
        for xs in itertools.product(range(4), repeat=ln):
            xs = list(xs)
            elems = [un(2, x) for x in xs]
            rec("minimum", [], [], xs, lambda: std.minimum(elems))
            rec("maximum", [], [], xs, lambda: std.maximum(elems))
            rec("min_element", [], [], xs, lambda: std.min_element(elems)[1])
            rec("max_element", [], [], xs, lambda: std.max_element(elems)[1])
            rec("min_index", [], [], xs, lambda: std.min_element(elems)[0])
            rec("max_index", [], [], xs, lambda: std.max_element(elems)[0])
            rec("min_index", [], [], xs, lambda: std.min_index(elems))
            rec("max_index", [], [], xs, lambda: std.max_index(elems))
            for val in (0, 2):
                rec("count", [val], [], xs, lambda: std.count(elems, un(2, val)))
                rec("count_elements_while", [val], [], xs, lambda: std.count_elements_while(elems, un(2, val)))
                rec("count_elements_until", [val], [], xs, lambda: std.count_elements_until(elems, un(2, val)))
            if ln >= 2:
                rec("fold_add", [2], [], xs, lambda: std.binary_fold(lambda a, b: a + b, elems))
                rec("fold_add", [2], [], xs, lambda: std.batched_fold(lambda a, b: a + b, elems, batch_size=2))
                rec("fold_add", [2], [], xs, lambda: std.batched_fold(lambda a, b: a + b, elems, batch_size=3))
                vecs = [[2, x] for x in xs]
                rec("fold_xor", [], vecs, [], lambda: std.binary_fold(lambda a, b: a ^ b, [bv(2, x) for x in xs]))
                rec("fold_and", [], vecs, [], lambda: std.batched_fold(lambda a, b: a & b, [bv(2, x) for x in xs], batch_size=2))
    for val, lo, hi in itertools.product(range(8), range(8), range(8)):
        if lo <= hi:
            rec("clamp", [val, lo, hi], [], [], lambda: std.clamp(un(3, val), lo, hi))
    # CRC: one bit per step and several bits per step must both equal polynomial division
    from cohdl.std._crc import BitwiseCrc
    for w, poly in ((3, 0b011), (4, 0b0011), (5, 0b00101)):
        for init in (0, (1 << w) - 1):
            for _ in range(40):
                bits = [rng.randrange(2) for _ in range(rng.randint(1, 7))]

                def single():
                    c = BitwiseCrc(bv(w, poly), bv(w, init))
                    for b in bits:
                        c.update(Bit(b))
                    return c.result()

                def multi():
                    c = BitwiseCrc(bv(w, poly), bv(w, init))
                    c.update_multiple(*[Bit(b) for b in bits])
                    return c.result()

                rec("crc", [1], [[w, init], [w, poly]], bits, single)
                rec("crc", [len(bits)], [[w, init], [w, poly]], bits, multi)
    json.dump({"cases": cases}, open(out, "w"))
    print(len(cases), sum(1 for c in cases if "err" in c))


if __name__ == "__main__":
    main(int(sys.argv[1]), sys.argv[2])
