"""Generator of constant Python expressions (C10) as JSON ASTs, and their printer.

The same AST is interpreted by spec/PyEval.tla (TLC), printed to Python and evaluated by CPython (validation of the
specification in mode "cpython") and by the CoHDL tracer (the property, mode "cohdl").
"""
import random

ENV = [  # name, AST  (evaluated in order; printed as module-level assignments)
    ("x", {"k": "int", "v": 3}), ("y", {"k": "int", "v": 0}), ("z", {"k": "int", "v": -2}),
    ("bt", {"k": "bool", "v": 1}), ("bf", {"k": "bool", "v": 0}), ("nn", {"k": "none"}),
    ("t3", {"k": "tuple", "es": [{"k": "int", "v": 1}, {"k": "int", "v": 2}, {"k": "int", "v": 3}]}),
    ("t0", {"k": "tuple", "es": []}),
    ("l3", {"k": "list", "es": [{"k": "int", "v": 4}, {"k": "int", "v": 0}, {"k": "int", "v": 6}]}),
    ("d2", {"k": "dict", "ks": [{"k": "int", "v": 1}, {"k": "int", "v": 2}], "vs": [{"k": "int", "v": 10}, {"k": "int", "v": 20}]}),
    ("nest", {"k": "tuple", "es": [{"k": "tuple", "es": [{"k": "int", "v": 1}, {"k": "int", "v": 2}]}, {"k": "list", "es": [{"k": "int", "v": 5}]}]}),
]

I = lambda v: {"k": "int", "v": v}
N = lambda n: {"k": "name", "n": n}


def to_py(e):
    k = e["k"]
    if k == "int":
        return f"({e['v']})" if e["v"] < 0 else str(e["v"])
    if k == "bool":
        return "True" if e["v"] else "False"
    if k == "none":
        return "None"
    if k == "cls":
        return "type(None)" if e["n"] == "NoneType" else e["n"]
    if k == "name":
        return e["n"]
    if k == "star":
        return "*" + to_py(e["e"])
    if k == "tuple":
        inner = ", ".join(to_py(x) for x in e["es"])
        return f"({inner},)" if len(e["es"]) == 1 else f"({inner})"
    if k == "list":
        return "[" + ", ".join(to_py(x) for x in e["es"]) + "]"
    if k == "dict":
        return "{" + ", ".join(f"{to_py(a)}: {to_py(b)}" for a, b in zip(e["ks"], e["vs"])) + "}"
    if k == "sub":
        return f"{to_py(e['e'])}[{to_py(e['i'])}]"
    if k == "slice":
        return f"{to_py(e['e'])}[{e['lo']}:{e['hi']}]"
    if k == "bin":
        op = {"add": "+", "sub": "-", "mul": "*", "floordiv": "//", "mod": "%"}[e["op"]]
        return f"({to_py(e['l'])} {op} {to_py(e['r'])})"
    if k == "neg":
        return f"(-{to_py(e['e'])})"
    if k == "not":
        return f"(not {to_py(e['e'])})"
    if k in ("and", "or"):
        return f"({to_py(e['l'])} {k} {to_py(e['r'])})"
    if k == "cmp":
        ops = {"lt": "<", "le": "<=", "gt": ">", "ge": ">=", "eq": "==", "ne": "!=", "is": "is", "isnot": "is not", "in": "in"}
        s = to_py(e["es"][0])
        for o, x in zip(e["ops"], e["es"][1:]):
            s += f" {ops[o]} {to_py(x)}"
        return f"({s})"
    if k == "ifexp":
        return f"({to_py(e['a'])} if {to_py(e['c'])} else {to_py(e['b'])})"
    if k == "comp":
        cond = f" if {to_py(e['cond'])}" if e["hascond"] else ""
        body = f"{to_py(e['elt'])} for {e['var']} in {to_py(e['it'])}{cond}"
        return f"[{body}]" if e["to"] == "list" else f"tuple([{body}])"
    if k == "call":
        return f"{e['f']}({', '.join(to_py(a) for a in e['args'])})"
    if k == "lambda":
        return f"(lambda {', '.join(e['p'])}: {to_py(e['b'])})"
    if k == "apply":
        return f"{to_py(e['f'])}({', '.join(to_py(a) for a in e['args'])})"
    raise ValueError(k)


class Gen:
    def __init__(self, rng):
        self.rng = rng
        self.locals = []          # names of comprehension / lambda variables in scope (ints)

    def int_(self, d):
        r = self.rng
        c = r.random()
        if d <= 0 or c < 0.3:
            pool = [I(r.randint(-3, 5)), N("x"), N("y"), N("z")] + [N(v) for v in self.locals]
            return r.choice(pool)
        if c < 0.5:
            return {"k": "bin", "op": r.choice(["add", "sub", "mul", "floordiv", "mod"]), "l": self.int_(d - 1), "r": self.int_(d - 1)}
        if c < 0.6:
            return {"k": "sub", "e": self.seq(d - 1, ints=True), "i": r.choice([I(0), I(-1), I(1), I(2), self.int_(0)])}
        if c < 0.68:
            return {"k": "call", "f": r.choice(["len", "len", "min", "max", "min", "max", "sum"]), "args": [self.seq(d - 1, ints=True)]}
        if c < 0.74:
            return {"k": "call", "f": "abs", "args": [self.int_(d - 1)]}
        if c < 0.82:
            return {"k": "ifexp", "c": self.any(d - 1), "a": self.int_(d - 1), "b": self.int_(d - 1)}
        if c < 0.88:
            return {"k": "neg", "e": self.int_(d - 1)}
        if c < 0.94:
            return {"k": "sub", "e": N("d2"), "i": r.choice([I(1), I(2), self.int_(0)])}
        v = f"p{len(self.locals)}"
        self.locals.append(v)
        body = self.int_(d - 1)
        self.locals.pop()
        # a closure capturing a variable of the enclosing scope, applied at once
        return {"k": "apply", "f": {"k": "lambda", "p": [v], "b": body}, "args": [self.int_(d - 1)]}

    def bool_(self, d):
        r = self.rng
        c = r.random()
        if d <= 0 or c < 0.2:
            return r.choice([N("bt"), N("bf"), {"k": "bool", "v": 1}, {"k": "bool", "v": 0}])
        if c < 0.45:
            n = r.choice([1, 1, 2])
            return {"k": "cmp", "ops": [r.choice(["lt", "le", "gt", "ge", "eq", "ne"]) for _ in range(n)], "es": [self.int_(d - 1) for _ in range(n + 1)]}
        if c < 0.55:
            return {"k": "not", "e": self.any(d - 1)}
        if c < 0.58:
            return {"k": "cmp", "ops": ["in"], "es": [self.int_(d - 1), self.seq(d - 1, ints=True)]}
        if c < 0.72:
            return {"k": "cmp", "ops": [r.choice(["is", "isnot"])], "es": [r.choice([N("nn"), self.any(d - 1)]), {"k": "none"}]}
        if c < 0.82:
            cls = r.choice([{"k": "cls", "n": "int"}, {"k": "cls", "n": "bool"}, {"k": "cls", "n": "tuple"}, {"k": "cls", "n": "list"},
                            {"k": "tuple", "es": [{"k": "cls", "n": "list"}, {"k": "cls", "n": "tuple"}]}])
            return {"k": "call", "f": "isinstance", "args": [self.any(d - 1), cls]}
        if c < 0.85:
            return {"k": "cmp", "ops": [r.choice(["eq", "ne", "lt"])], "es": [self.seq(d - 1, ints=True), self.seq(d - 1, ints=True)]}
        return {"k": "call", "f": "bool", "args": [self.any(d - 1)]}

    def seq(self, d, ints=False):
        r = self.rng
        c = r.random()
        if d <= 0 or c < 0.3:
            return r.choice([N("t3"), N("l3"), N("t0")] + ([] if ints else [N("nest")]))
        kind = r.choice(["tuple", "list"])
        if c < 0.55:
            es = []
            for _ in range(r.randint(0, 3)):
                if r.random() < 0.3:
                    es.append({"k": "star", "e": self.seq(d - 1, ints=ints)})
                else:
                    es.append(self.int_(d - 1) if ints or r.random() < 0.6 else self.any(d - 1))
            return {"k": kind, "es": es}
        if c < 0.7:
            v = f"c{len(self.locals)}"
            it = self.seq(d - 1, ints=True)
            self.locals.append(v)
            elt = self.int_(d - 1)
            cond = self.bool_(d - 1) if r.random() < 0.5 else None
            self.locals.pop()
            return {"k": "comp", "to": kind, "var": v, "it": it, "elt": elt, "hascond": 1 if cond else 0, "cond": cond or {"k": "bool", "v": 1}}
        if c < 0.74:
            a = self.seq(d - 1, ints=ints)
            return {"k": "bin", "op": "add", "l": a, "r": {"k": "call", "f": "tuple" if self._kind(a) == "tuple" else "list", "args": [self.seq(d - 1, ints=ints)]}}
        if c < 0.78:
            return {"k": "bin", "op": "mul", "l": self.seq(d - 1, ints=ints), "r": r.choice([I(0), I(1), I(2)])}
        if c < 0.94:
            lo = r.randint(0, 2)
            return {"k": "slice", "e": self.seq(d - 1, ints=ints), "lo": lo, "hi": lo + r.randint(0, 3)}
        return {"k": "call", "f": kind, "args": [r.choice([self.seq(d - 1, ints=ints), N("d2")])]}

    def _kind(self, e):
        if e["k"] in ("tuple", "list"):
            return e["k"]
        if e["k"] == "name":
            return "list" if e["n"] == "l3" else "tuple"
        if e["k"] == "comp":
            return e["to"]
        if e["k"] == "call":
            return e["f"]
        if e["k"] in ("bin",):
            return self._kind(e["l"])
        if e["k"] == "slice":
            return self._kind(e["e"])
        return "tuple"

    def any(self, d):
        r = self.rng
        c = r.random()
        if c < 0.3:
            return self.int_(d)
        if c < 0.55:
            return self.bool_(d)
        if c < 0.7:
            return self.seq(d)
        if c < 0.78 or d <= 0:
            return r.choice([N("nn"), N("d2"), {"k": "none"}, {"k": "dict", "ks": [I(1), I(1)], "vs": [I(5), I(7)]}])
        if c < 0.9:
            return {"k": r.choice(["and", "or"]), "l": self.any(d - 1), "r": self.any(d - 1)}
        return {"k": "ifexp", "c": self.any(d - 1), "a": self.any(d - 1), "b": self.any(d - 1)}


def programs(n, seed, depth=3):
    rng = random.Random(seed)
    g = Gen(rng)
    out = []
    for i in range(n):
        e = rng.choice([g.any, g.any, g.int_, g.bool_, g.seq])(depth)
        out.append({"id": i, "e": e})
    return out
