"""Python-level observations of primitive operations on constants (C09).  Runs under /venv/bin/python.

  pyobs_c09.py <maxw> <out.json>
Each case: [op, ka, wa, va, kb, wb, vb, rk, rw, rv]  (values are unsigned bit patterns; ints as is)
Pure observation: results are recorded, not judged.
"""
import sys, json, itertools
import cohdl
from cohdl import Unsigned, Signed, BitVector, Bit

BIN = {
    "add": lambda a, b: a + b, "sub": lambda a, b: a - b, "mul": lambda a, b: a * b,
    "truncdiv": lambda a, b: cohdl.op.truncdiv(a, b), "mod": lambda a, b: a % b, "rem": lambda a, b: cohdl.op.rem(a, b),
    "and": lambda a, b: a & b, "or": lambda a, b: a | b, "xor": lambda a, b: a ^ b,
    "lshift": lambda a, b: a << b, "rshift": lambda a, b: a >> b,
    "eq": lambda a, b: a == b, "ne": lambda a, b: a != b, "lt": lambda a, b: a < b, "le": lambda a, b: a <= b,
    "gt": lambda a, b: a > b, "ge": lambda a, b: a >= b, "concat": lambda a, b: a @ b,
}
UN = {"inv": lambda a: ~a, "neg": lambda a: -a, "abs": lambda a: abs(a), "bool": lambda a: bool(a), "not": lambda a: not a}


def mk(k, w, v):
    if k == "int":
        return v
    if k == "bit":
        return Bit(v)
    if k == "u":
        return Unsigned[w](v)
    if k == "s":
        return Signed[w](v - (1 << w) if v >= (1 << (w - 1)) else v)
    if k == "bv":
        return BitVector[w](format(v, f"0{w}b"))
    raise ValueError(k)


def observe(x):
    if isinstance(x, bool):
        return ["bool", 1, int(x)]
    if isinstance(x, int):
        return ["int", 0, x]
    if isinstance(x, Bit):
        return ["bit", 1, 1 if x else 0]
    if isinstance(x, BitVector):
        s = x._bit_str() if hasattr(x, "_bit_str") else str(x.bitvector)
        try:
            pat = int("".join(str(int(bool(b))) for b in reversed(list(x._value))), 2) if False else None
        except Exception:
            pat = None
        bits = x.bitvector
        text = repr(bits)
        body = text[text.index("(") + 1:-1]
        if set(body) - {"0", "1"}:
            return ["none", x.width, 0]
        k = "u" if isinstance(x, Unsigned) else "s" if isinstance(x, Signed) else "bv"
        return [k, x.width, int(body, 2)]
    return ["other", 0, 0]


def values(k, w):
    if k == "bit":
        return [0, 1]
    return range(1 << w)


def main(maxw, out):
    cases = []
    vec = [(k, w) for k in ("u", "s") for w in range(1, maxw + 1)]
    ints_u = [0, 1, 2, 3, 5, 7]
    ints_s = [-4, -2, -1, 0, 1, 2, 3]

    def run(op, fn, ka, wa, va, kb, wb, vb):
        try:
            r = observe(fn(mk(ka, wa, va), mk(kb, wb, vb)) if kb != "" else fn(mk(ka, wa, va)))
        except BaseException as e:  # noqa
            r = ["err", 0, 0]
        cases.append([op, ka, wa, va, kb, wb, vb] + r)

    for (ka, wa), (kb, wb) in itertools.product(vec, vec):
        if ka != kb:
            continue
        for op in ("add", "sub", "mul", "truncdiv", "mod", "rem", "eq", "ne", "lt", "le", "gt", "ge", "and", "or", "xor", "concat"):
            if op in ("and", "or", "xor") and wa != wb:
                continue
            for va in values(ka, wa):
                for vb in values(kb, wb):
                    run(op, BIN[op], ka, wa, va, kb, wb, vb)
    for ka, wa in vec:
        ints = ints_u if ka == "u" else ints_s
        for c in ints:
            lo, hi = (0, (1 << wa) - 1) if ka == "u" else (-(1 << (wa - 1)), (1 << (wa - 1)) - 1)
            if not lo <= c <= hi:
                continue
            for va in values(ka, wa):
                for op in ("add", "sub", "mul", "truncdiv", "mod", "rem", "eq", "ne", "lt", "le", "gt", "ge"):
                    run(op, BIN[op], ka, wa, va, "int", 0, c)
                    if op in ("add", "sub", "mul", "eq", "ne", "lt", "le", "gt", "ge"):
                        run(op, BIN[op], "int", 0, c, ka, wa, va)
        for va in values(ka, wa):
            for op in UN:
                if op == "abs" and ka == "u":
                    continue
                run(op, UN[op], ka, wa, va, "", 0, 0)
            for n in range(0, wa + 2):
                run("lshift", BIN["lshift"], ka, wa, va, "int", 0, n)
                run("rshift", BIN["rshift"], ka, wa, va, "int", 0, n)
            for wn in (1, 2):
                for vn in range(1 << wn):
                    run("lshift", BIN["lshift"], ka, wa, va, "u", wn, vn)
                    run("rshift", BIN["rshift"], ka, wa, va, "u", wn, vn)
            for w2 in range(wa, wa + 3):
                try:
                    r = observe(mk(ka, wa, va).resize(w2))
                except BaseException:
                    r = ["err", 0, 0]
                cases.append(["resize", ka, wa, va, "", 0, w2] + r)
    for ka in ("u", "s", "bv"):
        for wa in range(1, maxw + 1):
            for va in values(ka, wa):
                x = mk(ka, wa, va)
                for to, attr in (("u", "unsigned"), ("s", "signed"), ("bv", "bitvector")):
                    try:
                        r = observe(getattr(x, attr))
                    except BaseException:
                        r = ["err", 0, 0]
                    cases.append(["view", ka, wa, va, to, 0, 0] + r)
                for hi in range(wa):
                    try:
                        r = observe(x[hi])
                    except BaseException:
                        r = ["err", 0, 0]
                    cases.append(["idx", ka, wa, va, "", 0, hi] + r)
                    for lo in range(hi + 1):
                        try:
                            r = observe(x[hi:lo])
                        except BaseException:
                            r = ["err", 0, 0]
                        cases.append(["slice", ka, wa, va, "", hi, lo] + r)
                for op in ("inv", "bool", "not"):
                    if ka == "bv":
                        run(op, UN[op], ka, wa, va, "", 0, 0)
    for va in (0, 1):
        for vb in (0, 1):
            for op in ("and", "or", "xor", "eq", "ne"):
                run(op, BIN[op], "bit", 1, va, "bit", 1, vb)
        for op in ("inv", "bool", "not"):
            run(op, UN[op], "bit", 1, va, "", 0, 0)
    json.dump({"cases": cases}, open(out, "w"))
    print(len(cases))


if __name__ == "__main__":
    main(int(sys.argv[1]), sys.argv[2])
