"""C10 operator dispatch: specification (TLC output) vs CPython vs the CoHDL tracer. Runs under /venv/bin/python.

  pyobs_c10_ops.py <cases.json> <workdir> <out.json>      cases: [{"c": {kind, rel, fwd, rfl, ovr}, "res": ...}]
"""
import sys, os, json, importlib

OPS = {"arith": [("add", "+"), ("sub", "-"), ("mul", "*"), ("and", "&"), ("or", "|"), ("xor", "^"), ("mod", "%"), ("lshift", "<<")],
       "cmp": [("lt", "<", "gt"), ("le", "<=", "ge"), ("gt", ">", "lt"), ("ge", ">=", "le")],
       "eq": [("eq", "==", "eq"), ("ne", "!=", "ne")]}


def method(name, beh, tag, cmp=False):
    if beh == "absent":
        return []
    # comparison methods must return booleans for the tracer ("expected bool"): forward -> True, reflected -> False
    val = f'"{tag}"' if not cmp else ("True" if tag == "fwd" else "False")
    body = "NotImplemented" if beh == "ni" else val
    return [f"    def __{name}__(self, other):", f"        return {body}"]


CMPS = ("lt", "le", "gt", "ge")


def decoys(defined, value):
    """the comparison methods that must NOT be called return the opposite value, so that dispatching to a wrong method
    (e.g. __lt__ instead of __le__ as the reflection of >=) is visible"""
    out = []
    for n in CMPS:
        if n not in defined:
            out += [f"    def __{n}__(self, other):", f"        return {value}"]
    return out


def classes(idx, c, op):
    kind = c["kind"]
    fname = op[0]
    rname = ("r" + op[0]) if kind == "arith" else op[2]
    A, B = f"A{idx}", f"B{idx}"
    src = [f"class {A}:"]
    cmpk = kind != "arith"
    a_body = method(fname, c["fwd"], "fwd", cmpk)
    if c["rel"] == "same" or (c["rel"] == "sub" and c["ovr"] == 0):
        # the reflected method the right operand offers is A's own (same class, or inherited unchanged)
        if not (kind != "arith" and rname == fname):
            a_body += method(rname, c["rfl"], "rfl", cmpk)
    if kind == "cmp":
        own = {fname} | ({rname} if (c["rel"] == "same" or (c["rel"] == "sub" and c["ovr"] == 0)) else set())
        # forward value is True, reflected value is False; decoys on A return a value neither correct path yields for A
        a_body += decoys(own, "False" if c["rel"] != "same" else "None" if False else "False")
    src += a_body or ["    pass"]
    if c["rel"] == "same":
        return src, A, A
    src.append(f"class {B}({A if c['rel'] == 'sub' else ''}):".replace("()", ""))
    b_body = []
    if c["rel"] == "unrelated" or (c["rel"] == "sub" and c["ovr"] == 1):
        b_body = method(rname, c["rfl"], "rfl", cmpk)
    if kind == "cmp" and (c["rel"] == "unrelated" or (c["rel"] == "sub" and c["ovr"] == 1)):
        b_body += decoys({rname}, "True")      # B's correct reflected method yields False
    src += b_body or ["    pass"]
    return src, A, B


def skip(c, op):
    if c["ovr"] == 1 and c["rfl"] == "absent":
        return True
    # == / != are their own reflection: with one class, or an inherited method, forward and reflected are the same function
    if c["kind"] == "eq" and (c["rel"] == "same" or (c["rel"] == "sub" and c["ovr"] == 0)) and c["fwd"] != c["rfl"]:
        return True
    return False


def expected(c, op):
    r = c_res = None
    return None


def main():
    cases = json.load(open(sys.argv[1]))
    work = sys.argv[2]
    src = ["from __future__ import annotations", "import cohdl", "from cohdl import Bit, Port", "from cohdl import std", "",
           "RESULTS = {}", "def probe(tag, val):", "    RESULTS[tag] = val", ""]
    items = []
    for i, case in enumerate(cases):
        c = case["c"]
        for j, op in enumerate(OPS[c["kind"]]):
            if skip(c, op):
                continue
            idx = f"{i}_{j}"
            cl, A, B = classes(idx, c, op)
            src += cl
            src += [f"a{idx} = {A}()", f"b{idx} = {B}()", ""]
            exp = case["res"]
            if exp == "identity":
                exp = (op[0] == "ne")      # distinct objects: == is False, != is True
            elif c["kind"] != "arith" and exp in ("fwd", "rfl"):
                exp = exp == "fwd"
                if c["kind"] == "eq" and (c["rel"] == "same" or (c["rel"] == "sub" and c["ovr"] == 0)):
                    exp = True       # == / != are their own reflection: forward and reflected are one and the same method here
            items.append({"idx": idx, "expr": f"a{idx} {op[1]} b{idx}", "exp": exp, "case": c, "op": op[0]})
    spec_vs_cpython = []
    for g, it in enumerate(items):
        src += [f"class G{g}(cohdl.Entity):", "    o = Port.output(Bit)", "    def architecture(self):", "        @std.concurrent", "        def logic():",
                f"            std.as_pyeval(probe, '{it['idx']}', {it['expr']})", "            self.o <<= True", ""]
    open(os.path.join(work, "c10_ops_gen.py"), "w").write("\n".join(src))
    sys.path.insert(0, work)
    import cohdl
    from cohdl import std
    mod = importlib.import_module("c10_ops_gen")
    tracer = []
    rejected_valid = 0
    for g, it in enumerate(items):
        try:
            got = eval(it["expr"], vars(mod))
        except TypeError:
            got = "TypeError"
        if got != it["exp"]:
            spec_vs_cpython.append({"expr": it["expr"], "case": it["case"], "op": it["op"], "cpython": got, "spec": it["exp"]})
            continue
        r, w = os.pipe()
        pid = os.fork()
        if pid == 0:
            os.close(r)
            try:
                std.VhdlCompiler.to_string(getattr(mod, f"G{g}"))
                res = {"ok": True, "val": mod.RESULTS.get(it["idx"])}
            except BaseException as e:  # noqa
                res = {"ok": False, "err": f"{type(e).__name__}: {e}"[:120]}
            with os.fdopen(w, "w") as fh:
                fh.write(json.dumps(res))
            os._exit(0)
        os.close(w)
        with os.fdopen(r) as fh:
            data = fh.read()
        os.waitpid(pid, 0)
        res = json.loads(data) if data else {"ok": False, "err": "child died"}
        tr = res["val"] if res["ok"] else "TypeError"
        # C10: "evaluates to exactly the values CPython produces ... or is rejected with an error": a rejection of valid code is
        # allowed; a different value, or accepting what CPython rejects, is not
        if not res["ok"] and it["exp"] != "TypeError":
            rejected_valid += 1
        elif tr != it["exp"]:
            c = it["case"]
            tracer.append({"clause": "operator-dispatch", "op": it["op"], "case": c, "cpython": it["exp"], "tracer": tr if res["ok"] else res["err"],
                           "desc": f"{c['kind']} {it['op']}: rel={c['rel']} fwd={c['fwd']} rfl={c['rfl']} ovr={c['ovr']}"})
    json.dump({"checked": len(items), "spec_vs_cpython": spec_vs_cpython[:20], "n_spec_vs_cpython": len(spec_vs_cpython), "tracer": tracer, "rejected_valid": rejected_valid},
              open(sys.argv[3], "w"))


if __name__ == "__main__":
    main()
