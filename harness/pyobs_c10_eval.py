"""C10 constant evaluation: CPython and the CoHDL tracer on generated expressions. Runs under /venv/bin/python.

  pyobs_c10_eval.py <programs.json> <workdir> <out.json>
programs.json: {"env": [[name, python source]], "programs": [{"id", "src"}]}
out: {"cpython": {id: canon}, "tracer": {id: canon | {"t": "rejected", "v": message}}}
"""
import sys, os, json, importlib


def canon(v):
    if isinstance(v, bool):
        return {"t": "bool", "v": int(v)}
    if isinstance(v, int):
        return {"t": "int", "v": v}
    if v is None:
        return {"t": "none", "v": 0}
    if isinstance(v, (tuple, list)):
        return {"t": "tuple" if isinstance(v, tuple) else "list", "v": [canon(x) for x in v]}
    if isinstance(v, dict):
        return {"t": "dict", "v": [[canon(a), canon(b)] for a, b in v.items()]}
    return {"t": "other", "v": type(v).__name__}


def main():
    job = json.load(open(sys.argv[1]))
    work = sys.argv[2]
    ns = {}
    for n, src in job["env"]:
        ns[n] = eval(src, dict(ns))
    cpy = {}
    for p in job["programs"]:
        try:
            cpy[p["id"]] = canon(eval(p["src"], dict(ns)))
        except Exception as e:  # noqa
            cpy[p["id"]] = {"t": "err", "v": type(e).__name__}
    # tracer: programs batched per entity; a batch that is rejected is split so that the rejected program is identified
    src = ["from __future__ import annotations", "import cohdl", "from cohdl import Bit, Port", "from cohdl import std", "",
           "RESULTS = {}", "def probe(tag, val):", "    RESULTS[tag] = val", ""]
    for n, s in job["env"]:
        src.append(f"{n} = {s}")
    src.append("")
    progs = job["programs"]
    for p in progs:
        src += [f"class G{p['id']}(cohdl.Entity):", "    o = Port.output(Bit)", "    def architecture(self):", "        @std.concurrent", "        def logic():",
                f"            std.as_pyeval(probe, {p['id']}, {p['src']})", "            self.o <<= True", ""]
    sys.path.insert(0, work)
    open(os.path.join(work, "c10_eval_gen.py"), "w").write("\n".join(src))
    import cohdl
    from cohdl import std
    mod = importlib.import_module("c10_eval_gen")
    tracer = {}
    B = 25
    for k in range(0, len(progs), B):
        chunk = progs[k:k + B]
        r, w = os.pipe()
        pid = os.fork()
        if pid == 0:
            os.close(r)
            out = {}
            for p in chunk:
                mod.RESULTS.clear()
                try:
                    std.VhdlCompiler.to_string(getattr(mod, f"G{p['id']}"))
                    out[p["id"]] = canon(mod.RESULTS[p["id"]]) if p["id"] in mod.RESULTS else {"t": "rejected", "v": "probe not reached"}
                except BaseException as e:  # noqa
                    out[p["id"]] = {"t": "rejected", "v": f"{type(e).__name__}: {e}"[:120]}
            with os.fdopen(w, "w") as fh:
                fh.write(json.dumps(out))
            os._exit(0)
        os.close(w)
        with os.fdopen(r) as fh:
            data = fh.read()
        os.waitpid(pid, 0)
        res = json.loads(data) if data else {}
        for p in chunk:
            tracer[p["id"]] = res.get(str(p["id"]), {"t": "rejected", "v": "child died"})
    json.dump({"cpython": cpy, "tracer": tracer}, open(sys.argv[3], "w"))


if __name__ == "__main__":
    main()
