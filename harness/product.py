"""Generic runner for the refinement product (spec/mc/MC_Product.tla)."""
import os, sys, json, time, re
import vlib
import adl as ADL

ASSUMPTIONS = [
    "harness/vhdl_reader.py reads the emitted text faithfully (pure syntax, no judgement)",
    "spec/NumericStd.tla + spec/VhdlSem.tla transcribe IEEE 1076-1993 / numeric_std for the emitted subset (one unknown for all metavalues; port associations as implicit concurrent assignments)",
    "spec/CoExpr.tla + spec/CoSem.tla transcribe the property statement (each clause cites its sentence)",
    "harness/adl.py pretty-prints the ADL to CoHDL source without changing its meaning (source text is stored in every replay file)",
    "TLC 1.8 evaluates the specifications correctly",
]


def SRC(e):
    return e.get("source_override") or ADL.to_python(e)


def keep_vars(ent):
    return [o["n"] for o in ent["objs"] if o["q"] == "variable"]


BUDGET = {"quick": 4000, "thorough": 40000}


def design_record(ent, ob, maxdepth, clk="clk", budget=4000):
    return {"id": ent["name"], "adl": ent, "ast": ob["ast"], "top": ent["name"].lower(), "keep": keep_vars(ent),
            "inputs": ADL.input_space(ent, clk), "clk": clk, "maxdepth": maxdepth, "budget": budget,
            "async": 1 if any(c["reset"]["k"] != "none" and c["reset"]["async"] for c in ent["ctxs"]) else 0}


def extract_trace(out):
    """reduce a TLC error trace to the list of `last` inputs and the final err"""
    states = re.split(r"\nState \d+: ", out)
    steps = []
    for st in states[1:]:
        m = re.search(r"/\\ last = (.*)", st)
        e = re.search(r'/\\ err = "([^"]*)"', st)
        steps.append({"inputs": m.group(1)[:400] if m else "", "err": e.group(1) if e else ""})
    return steps


def run(prop, tier, ents, maxdepth_of, scratch, timeout, level="model_checking", expect_reject=None,
        rule="", extra_cov=None, clk="clk", verdict=None, finish=True):
    """ents: list of ADL entities.  maxdepth_of(ent) -> int.  Returns exit code."""
    t0 = time.time()
    V = verdict or vlib.Verdict(prop)
    by_name = {e["name"]: e for e in ents}
    obs = vlib.compile_entities(ents, scratch, tag="g" + prop.lower())
    t_compile = time.time() - t0
    designs, rejected, unread = [], [], []
    for e in ents:
        ob = obs.get(e["name"])
        if ob is None:
            V.machinery_error(f"no observation for {e['name']}")
            continue
        if ob["outcome"] == "crash":
            V.machinery_error(f"generated module for {e['name']} could not be imported: {ob['error']['msg']}")
            continue
        if ob["outcome"] != "accepted":
            rejected.append((e, ob))
            continue
        vlib.read_obs(ob)
        if ob["reader"] == "ok":
            designs.append(design_record(e, ob, maxdepth_of(e), clk, e.get("budget", {}).get(tier) or BUDGET.get(tier, 4000)))
        else:
            unread.append((e, ob))
    for e, ob in rejected:
        key = f"core-design-rejected:{e['family']}|{ob['error']['cls']}: {ob['error']['msg'][:160]}"
        V.violation(key, {"clause": "CoreAccepted", "adl": e, "source_py": SRC(e), "error": ob["error"],
                          "tb": ob.get("tb", "")})
    for e, ob in unread:
        if ob["reader"] == "syntax_error":
            V.violation(f"emitted-vhdl-syntax-error:{e['family']}|{ob['reader_msg']}",
                        {"clause": "Parses", "adl": e, "source_py": SRC(e), "vhdl": ob["vhdl"], "msg": ob["reader_msg"]})
        else:
            V.machinery_error(f"unsupported construct in {e['name']}: {ob['reader_msg']}")
    # cost-balanced shards: sort by input-space size so every shard gets a mix
    designs.sort(key=lambda d: -sum(i["w"] for i in d["inputs"]))
    shards = [{"designs": s} for s in vlib.shard(designs, vlib.NCPU) if s]
    results = vlib.run_tlc_shards("MC_Product.tla", "MC_Product.cfg", shards, scratch, timeout=timeout) if shards else []
    gen = dist = 0
    stats = {}
    viols = []
    for r in results:
        p = r["parsed"]
        gen += p["generated"]
        dist += p["distinct"]
        stats.update(p["stat"])
        viols += p["viol"]
        if r["timeout"]:
            V.machinery_error(f"TLC timeout after {timeout}s on shard {r['obsfile']}")
        elif not p["finished"] or (p["errors"] and not p["viol"]):
            V.machinery_error("TLC did not complete: " + " / ".join(p["errors"][:3]) + r["out"][-600:])
    # counterexample extraction: one replay run per distinct (family, clause)
    done = {}
    for did, err in viols:
        e = by_name[did]
        cls = f"{err.split(':')[0]}:{e['family'].split('_')[0]}:{err[:60]}"
        if cls not in done and len(done) < 8:
            done[cls] = did
    rshards = [{"designs": [x for x in designs if x["id"] == did]} for did in done.values()]
    rres = vlib.run_tlc_shards("MC_Product.tla", "MC_Product_replay.cfg", rshards, scratch, timeout=300) if rshards else []
    traces = {did: extract_trace(r["out"]) for did, r in zip(done.values(), rres)}
    for did, err in viols:
        e = by_name[did]
        key = f"{err.split(':')[0]}:{e['family']}|{err}|{did}"
        payload = {"clause": err, "adl": e, "source_py": SRC(e), "vhdl": obs[did]["vhdl"]}
        if did in traces:
            payload["trace"] = traces[did]
            payload["how_to"] = f"./check {prop} --replay <this file>"
        V.violation(key, payload)
    nontrivial = sum(1 for k, v in stats.items() if v[0] >= 2 and v[1] >= 2)
    truncated = sorted(k for k, v in stats.items() if v[0] >= (by_name[k].get("budget", {}).get(tier) or BUDGET.get(tier, 4000)))
    samples = []
    for d in designs[:: max(1, len(designs) // 3)][:3]:
        samples.append({"id": d["id"], "family": by_name[d["id"]]["family"], "source_py": ADL.to_python(by_name[d["id"]]),
                        "vhdl_lines": obs[d["id"]]["vhdl"].count("\n"), "product_states": stats.get(d["id"], [0, 0])[0]})
    cov = {"states": dist, "transitions": gen, "traces_validated_against_impl": len(designs),
           "programs": len(ents), "accepted": len(designs) + len(unread), "rejected": len(rejected),
           "evaluations": gen, "distinct_nontrivial": nontrivial,
           "rule": rule or "a design counts as non-trivial when its product has >= 2 explored states and its outputs take >= 2 distinct valuations (counted by TLC registers per design)",
           "samples": samples, "compile_s": round(t_compile, 1),
           "families": sorted({re.split(r"[_:(-]", e["family"])[0] for e in ents})[:40],
           "truncated_designs": len(truncated), "budget_transitions_per_design": BUDGET.get(tier, 4000),
           "exhaustive": len(truncated) == 0}
    cov.update(extra_cov or {})
    if not finish:
        return V, cov
    rc = V.finish()
    vlib.write_evidence(prop, tier, level, cov, time.time() - t0, len(V.new), ASSUMPTIONS)
    return rc
