"""Replay of TypeLattice behaviours into the real classes (C13).  Runs under /venv/bin/python.

  pyobs_c13.py <cases.json> <out.json>
cases.json: {"behaviours": [[texpr,...],...], "sub": [[x,y],...]}   texpr = {"q","k","w"}
Every behaviour is replayed in a forked child (so the lazily filled class caches start empty);
after every step the identity of the returned class and the issubclass matrix over everything created
so far are compared with the specification's answer.  out.json: {"replayed": n, "failures": [...]}.
"""
import sys, os, json


def build(t):
    import cohdl
    from cohdl import Bit, BitVector, Unsigned, Signed, Signal, Variable, Temporary, Port
    fam = {"bv": BitVector, "u": Unsigned, "s": Signed}
    inner = Bit if t["k"] == "bit" else (fam[t["k"]] if t["w"] == 0 else fam[t["k"]][t["w"]])
    q = t["q"]
    if q == "none":
        return inner
    if q == "signal":
        return Signal[inner]
    if q == "variable":
        return Variable[inner]
    if q == "temporary":
        return Temporary[inner]
    if q == "port_in":
        return Port[inner, Port.Direction.INPUT]
    if q == "port_out":
        return Port[inner, Port.Direction.OUTPUT]
    raise ValueError(q)


def key(t):
    return f"{t['q']}:{t['k']}:{t['w']}"


def replay(beh, sub):
    created = {}
    for step, t in enumerate(beh):
        k = key(t)
        try:
            cls = build(t)
        except BaseException as e:  # noqa
            return {"step": step, "clause": "Get", "detail": f"{type(e).__name__}: {e}"[:200]}
        if k in created:
            if created[k] is not cls:
                return {"step": step, "clause": "Canonical", "detail": f"{k}: a second use returned a different class object"}
        else:
            for k2, c2 in created.items():
                if c2 is cls:
                    return {"step": step, "clause": "DistinctParamsDistinctClasses", "detail": f"{k} and {k2} are the same class object"}
            created[k] = cls
        for ka, ca in created.items():
            for kb, cb in created.items():
                exp = (ka, kb) in sub
                got = issubclass(ca, cb)
                if exp != got:
                    return {"step": step, "clause": "Lattice", "detail": f"issubclass({ka}, {kb}) = {got}, documented {exp}"}
    return None


def find_caches():
    """every class-level `_SubTypes` dictionary of the package (the lazily filled caches)"""
    import sys, inspect
    seen = {}
    for name, mod in list(sys.modules.items()):
        if not name.startswith("cohdl") or mod is None:
            continue
        for obj in list(vars(mod).values()):
            if inspect.isclass(obj):
                for klass in obj.__mro__:
                    d = vars(klass).get("_SubTypes")
                    if isinstance(d, dict):
                        seen[id(d)] = d
    return list(seen.values())


def main():
    job = json.load(open(sys.argv[1]))
    sub = {(key(x), key(y)) for x, y in job["sub"]}
    import cohdl
    from cohdl import std  # noqa
    failures = []
    n = nfork = 0
    mode = job.get("mode", "fork")
    caches = find_caches()
    snapshot = [dict(d) for d in caches]
    for beh in job["behaviours"]:
        if mode == "reset":
            # same interpreter, caches restored to their import-time content before every behaviour
            for d, snap in zip(caches, snapshot):
                d.clear()
                d.update(snap)
            res = replay(beh, sub)
        else:
            r, w = os.pipe()
            pid = os.fork()
            if pid == 0:
                os.close(r)
                res = replay(beh, sub)
                with os.fdopen(w, "w") as fh:
                    fh.write(json.dumps(res))
                os._exit(0)
            os.close(w)
            with os.fdopen(r) as fh:
                data = fh.read()
            os.waitpid(pid, 0)
            res = json.loads(data) if data else {"step": -1, "clause": "Crash", "detail": "child died"}
            nfork += 1
        n += 1
        if res:
            res["behaviour"] = [key(t) for t in beh]
            res["mode"] = mode
            failures.append(res)
    json.dump({"replayed": n, "forked": nfork, "caches": len(caches), "failures": failures[:200], "nfail": len(failures)}, open(sys.argv[2], "w"))


if __name__ == "__main__":
    main()
