"""Compile the upstream reference designs (tests/reference_builds) with inert cocotb stubs.

Upstream these designs are accepted by ghdl; here they serve as the false-alarm calibration
corpus for the VHDL reader / VhdlStatic / VhdlSem.  Run with /venv/bin/python, PYTHONPATH=<repo>.
Writes <outdir>/<module>__<Entity>.vhd and an index.json.
"""
import sys, os, types, importlib, json, inspect, traceback, pkgutil


class _Anything(types.ModuleType):
    def __getattr__(self, name):
        if name.startswith("__") and name.endswith("__"):
            raise AttributeError(name)
        return _any


class _Any:
    def __call__(self, *a, **k):
        # decorator usage: @x.test() / @x.test
        if len(a) == 1 and callable(a[0]) and not k:
            return a[0]
        return self

    def __getattr__(self, name):
        if name.startswith("__") and name.endswith("__"):
            raise AttributeError(name)
        return self

    def __mro_entries__(self, bases):
        return (object,)

    def __iter__(self):
        return iter(())


_any = _Any()


def install_stubs():
    for name in [
        "cocotb", "cocotb.triggers", "cocotb.clock", "cocotb.types", "cocotb.handle", "cocotb.binary",
        "cocotb.utils", "cocotb.result", "cocotb.regression", "cocotb.queue",
        "cocotb_test", "cocotb_test.simulator", "cocotbext", "cocotbext.axi", "cocotbext.uart", "cocotbext.spi",
    ]:
        sys.modules[name] = _Anything(name)


def main(repo, outdir):
    install_stubs()
    sys.path.insert(0, os.path.join(repo, "tests"))
    sys.path.insert(0, repo)
    import cohdl
    from cohdl import std

    assert os.path.realpath(cohdl.__file__).startswith(os.path.realpath(repo)), cohdl.__file__
    os.makedirs(outdir, exist_ok=True)
    base = os.path.join(repo, "tests", "reference_builds")
    index = []
    mods = []
    for root, dirs, files in os.walk(base):
        dirs.sort()
        for f in sorted(files):
            if f.startswith("test_") and f.endswith(".py"):
                rel = os.path.relpath(os.path.join(root, f), os.path.join(repo, "tests"))
                mods.append(rel[:-3].replace(os.sep, "."))
    for m in mods:
        rec = {"module": m, "entities": []}
        try:
            mod = importlib.import_module(m)
        except BaseException as e:  # noqa
            rec["import_error"] = f"{type(e).__name__}: {e}"[:300]
            index.append(rec)
            continue
        for name, obj in sorted(vars(mod).items()):
            if not (inspect.isclass(obj) and issubclass(obj, cohdl.Entity) and obj is not cohdl.Entity):
                continue
            if obj.__module__ != mod.__name__ or not name.startswith("test_"):
                continue
            try:
                text = std.VhdlCompiler.to_string(obj)
                fn = f"{m.replace('.', '__')}__{name}.vhd"
                with open(os.path.join(outdir, fn), "w") as fh:
                    fh.write(text)
                rec["entities"].append({"name": name, "file": fn, "lines": text.count("\n")})
            except BaseException as e:  # noqa
                rec["entities"].append({"name": name, "error": f"{type(e).__name__}: {e}"[:300]})
        index.append(rec)
    with open(os.path.join(outdir, "index.json"), "w") as fh:
        json.dump(index, fh, indent=1)
    ok = sum(1 for r in index for e in r["entities"] if "file" in e)
    print(f"modules={len(mods)} import_errors={sum(1 for r in index if 'import_error' in r)} compiled={ok}")


if __name__ == "__main__":
    main(sys.argv[1], sys.argv[2])
