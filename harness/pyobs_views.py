"""Replay of Views behaviours on real objects (C13).  Runs under /venv/bin/python.

  pyobs_views.py <cases.json> <out.json>
cases.json: {"root": {"q": "signal"|"variable", "k": "bv"|"u"|"s", "w": 4}, "behaviours": [[step,...],...]}
step = {"op": cast|slice|index|write, "on": i, "kind", "a", "b", "root", "vals": [...]}
After every step: each live view must (1) show exactly the bits the specification gives, (2) have the same
root object and (3) the same qualifier as the root.
"""
import sys, json


def bits_of(x):
    """observed unsigned bit pattern of a (view of a) primitive value; None if not fully defined"""
    from cohdl import Bit, BitVector, TypeQualifier
    v = TypeQualifier.decay(x)
    if isinstance(v, Bit):
        return 1 if v else 0
    text = repr(v.bitvector if hasattr(v, "bitvector") else v)
    body = text[text.index("(") + 1:-1]
    if set(body) - {"0", "1"}:
        return None
    return int(body, 2)


def to_py(kind, width, pat):
    if kind == "bit":
        return bool(pat)
    if kind == "s":
        return pat - (1 << width) if pat >= (1 << (width - 1)) else pat
    if kind == "u":
        return pat
    return format(pat, f"0{width}b")


def replay(rootspec, beh):
    from cohdl import Signal, Variable, BitVector, Unsigned, Signed
    fam = {"bv": BitVector, "u": Unsigned, "s": Signed}[rootspec["k"]]
    Q = Signal if rootspec["q"] == "signal" else Variable
    w = rootspec["w"]
    root = Q[fam[w]](to_py(rootspec["k"], w, 0), name="root")
    objs = [root]
    widths = [w]
    for n, st in enumerate(beh):
        try:
            if st["op"] == "cast":
                objs.append(getattr(objs[st["on"] - 1], {"u": "unsigned", "s": "signed", "bv": "bitvector"}[st["kind"]]))
                widths.append(widths[st["on"] - 1])
            elif st["op"] == "slice":
                objs.append(objs[st["on"] - 1][st["a"]:st["b"]])
                widths.append(st["a"] - st["b"] + 1)
            elif st["op"] == "index":
                objs.append(objs[st["on"] - 1][st["a"]])
                widths.append(1)
            else:
                tgt = objs[st["on"] - 1]
                val = to_py(st["kind"], widths[st["on"] - 1], st["a"])
                if Q is Signal:
                    tgt.next = val
                else:
                    tgt.value = val
        except BaseException as e:  # noqa
            return {"step": n, "clause": "Op", "detail": f"{st['op']}: {type(e).__name__}: {e}"[:200]}
        for i, (o, exp) in enumerate(zip(objs, st["vals"])):
            got = bits_of(o)
            if got != exp:
                return {"step": n, "clause": "Alias", "detail": f"view {i + 1} shows {got}, storage window holds {exp}"}
            if getattr(o, "_root", None) is not root:
                return {"step": n, "clause": "SameRoot", "detail": f"view {i + 1} has a different root"}
            if not isinstance(o, Q):
                return {"step": n, "clause": "SameQualifier", "detail": f"view {i + 1} is a {type(o).__name__}"}
    return None


def main():
    job = json.load(open(sys.argv[1]))
    import cohdl  # noqa
    failures = []
    n = 0
    for beh in job["behaviours"]:
        res = replay(job["root"], beh)
        n += 1
        if res:
            res["behaviour"] = [f"{s['op']}({s['on']},{s['kind']},{s['a']},{s['b']})" for s in beh]
            failures.append(res)
    json.dump({"replayed": n, "failures": failures[:200], "nfail": len(failures)}, open(sys.argv[2], "w"))


if __name__ == "__main__":
    main()
