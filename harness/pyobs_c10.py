"""C10 call binding: specification (TLC output) vs CPython vs the CoHDL tracer.  Runs under /venv/bin/python.

  pyobs_c10.py <cases.json> <workdir> <out.json>
cases.json: {"all": [case,...], "sample": [indices into all]}   case = {"sig", "call", "res"} as printed by MC_CallBinding
 1. every case: CPython's own binder must agree with the specification (validates the specification itself);
 2. sampled cases: the same call traced by CoHDL inside a concurrent context (constant arguments), observed with a pyeval probe.
"""
import sys, os, json, importlib


def sig_src(sig):
    parts = []
    for p in sig["po"]:
        parts.append(p["n"] + (f"={500 + ord(p['n'][0])}" if p["d"] else ""))
    if sig["po"]:
        parts.append("/")
    for p in sig["pk"]:
        parts.append(p["n"] + (f"={500 + ord(p['n'][0])}" if p["d"] else ""))
    if sig["va"]:
        parts.append("*args")
    elif sig["ko"]:
        parts.append("*")
    for p in sig["ko"]:
        parts.append(p["n"] + (f"={500 + ord(p['n'][0])}" if p["d"] else ""))
    if sig["vk"]:
        parts.append("**kw")
    names = [p["n"] for p in sig["po"] + sig["pk"] + sig["ko"]]
    items = [f"('{n}', {n})" for n in names] + (["('*', args)"] if sig["va"] else []) + (["('**', kw)"] if sig["vk"] else [])
    ret = "(" + "".join(x + ", " for x in items) + ")"
    return f"({', '.join(parts)})", ret


def call_src(call):
    args = [str(101 + i) for i in range(call["npos"])]
    if call["star"] >= 0:
        args.append("*(" + "".join(f"{201 + j}, " for j in range(call["star"])) + ")")
    for k in call["kw"]:
        args.append(f"{k}={300 + ord(k[0])}")
    if call["dstar"]:
        args.append("**{" + ", ".join(f"'{k}': {400 + ord(k[0])}" for k in call["dstar"]) + "}")
    return "(" + ", ".join(args) + ")"


def expected(case):
    """the binding the specification predicts, as {param: value, '*': tuple, '**': dict}"""
    sig, call, res = case["sig"], case["call"], case["res"]
    if not res["ok"]:
        return None
    npos = call["npos"]
    posval = lambda i: 100 + i if i <= npos else 200 + (i - npos)
    kwval = {k: 300 + ord(k[0]) for k in call["kw"]}
    kwval.update({k: 400 + ord(k[0]) for k in call["dstar"]})
    out = {}
    bound = res["bound"] if isinstance(res["bound"], dict) else {}   # ToJson prints the empty function as []
    for p, src in bound.items():
        out[p] = posval(src[1]) if src[0] == "pos" else kwval[src[1]] if src[0] == "kw" else 500 + ord(p[0])
    np_ = len(sig["po"]) + len(sig["pk"])
    nargs = npos + max(call["star"], 0)
    if sig["va"]:
        out["*"] = [posval(i) for i in range(np_ + 1, nargs + 1)]
    if sig["vk"]:
        out["**"] = {k: kwval[k] for k in res["kwargs"]}
    return out


def norm(ret):
    out = {}
    for k, v in ret:
        out[k] = list(v) if k == "*" else dict(v) if k == "**" else v
    return out


def main():
    job = json.load(open(sys.argv[1]))
    cases, sample = job["all"], job["sample"]
    work = sys.argv[2]
    spec_vs_cpython = []
    for i, c in enumerate(cases):
        params, ret = sig_src(c["sig"])
        ns = {}
        exec(f"def f{params}:\n    return {ret}\n", ns)
        try:
            got = norm(eval("f" + call_src(c["call"]), ns))
        except TypeError:
            got = None
        if got != expected(c):
            spec_vs_cpython.append({"i": i, "sig": params, "call": call_src(c["call"]), "cpython": got, "spec": expected(c), "why": c["res"].get("why")})
    # tracer: accepted calls batched per entity, rejected calls one entity each
    sys.path.insert(0, work)
    src = ["from __future__ import annotations", "import cohdl", "from cohdl import Bit, Port", "from cohdl import std", "",
           "RESULTS = {}", "def probe(tag, val):", "    RESULTS[tag] = val", ""]
    ents = []
    acc = [i for i in sample if cases[i]["res"]["ok"]]
    rej = [i for i in sample if not cases[i]["res"]["ok"]]
    for i in sample:
        params, ret = sig_src(cases[i]["sig"])
        src += [f"def f{i}{params}:", f"    return {ret}", ""]
    groups = [acc[j:j + 40] for j in range(0, len(acc), 40)] + [[i] for i in rej]
    for g, idxs in enumerate(groups):
        src += [f"class G{g}(cohdl.Entity):", "    o = Port.output(Bit)", "    def architecture(self):", "        @std.concurrent", "        def logic():"]
        for i in idxs:
            src.append(f"            std.as_pyeval(probe, {i}, f{i}{call_src(cases[i]['call'])})")
        src += ["            self.o <<= True", ""]
        ents.append((f"G{g}", idxs))
    open(os.path.join(work, "c10_gen.py"), "w").write("\n".join(src))
    import cohdl
    from cohdl import std
    mod = importlib.import_module("c10_gen")
    tracer = []
    rejected_valid = 0
    checked = 0
    for name, idxs in ents:
        r, w = os.pipe()
        pid = os.fork()
        if pid == 0:
            os.close(r)
            try:
                std.VhdlCompiler.to_string(getattr(mod, name))
                res = {"ok": True, "results": {str(k): norm(v) for k, v in mod.RESULTS.items()}}
            except BaseException as e:  # noqa
                res = {"ok": False, "err": f"{type(e).__name__}: {e}"[:160]}
            with os.fdopen(w, "w") as fh:
                fh.write(json.dumps(res))
            os._exit(0)
        os.close(w)
        with os.fdopen(r) as fh:
            data = fh.read()
        os.waitpid(pid, 0)
        res = json.loads(data) if data else {"ok": False, "err": "child died"}
        for i in idxs:
            checked += 1
            c = cases[i]
            exp = expected(c)
            params, _ = sig_src(c["sig"])
            desc = f"def f{params} called as f{call_src(c['call'])}"
            if exp is None:
                if res["ok"]:
                    tracer.append({"i": i, "clause": "accepted-but-cpython-rejects", "why": c["res"]["why"], "desc": desc,
                                   "tracer": res["results"].get(str(i))})
            else:
                if not res["ok"]:
                    rejected_valid += 1      # "... or is rejected with an error": allowed by C10, counted in the evidence
                elif res["results"].get(str(i)) != json.loads(json.dumps(exp)):
                    tracer.append({"i": i, "clause": "binds-different-values", "why": "", "desc": desc, "tracer": res["results"].get(str(i)), "cpython": exp})
    json.dump({"spec_vs_cpython": spec_vs_cpython[:50], "n_spec_vs_cpython": len(spec_vs_cpython), "tracer": tracer, "tracer_checked": checked, "rejected_valid": rejected_valid,
               "cpython_checked": len(cases)}, open(sys.argv[3], "w"))


if __name__ == "__main__":
    main()
