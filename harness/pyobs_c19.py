"""Python-level observations of SFixed/UFixed on constants (C19).  Runs under /venv/bin/python.

  pyobs_c19.py <bound> <out.json>
case = [op, signed, l1, r1, raw1, l2, r2, raw2, p1, p2, lo, ro, rawo]   (rawo = -99999: raised)
"""
import sys, json, itertools
from cohdl import std, BitVector
from cohdl.std import SFixed, UFixed, FixedRoundStyle as R, FixedOverflowStyle as O


def mk(signed, l, r, raw):
    T = (SFixed if signed else UFixed)[l:r]
    w = l - r + 1
    return T._from_bits_(BitVector[w](format(raw % (1 << w), f"0{w}b")))


def obs(x, signed):
    T = type(x)
    l, r = T.left(), T.right()
    w = l - r + 1
    text = repr(x._to_bits_())
    body = text[text.index("(") + 1:-1]
    n = int(body, 2)
    if signed and n >= 1 << (w - 1):
        n -= 1 << w
    return [l, r, n]


def raws(signed, l, r):
    w = l - r + 1
    return range(-(1 << (w - 1)), 1 << (w - 1)) if signed else range(1 << w)


def main(bound, out):
    cases = []
    fmts = [(l, r) for l in range(-bound, bound + 1) for r in range(-bound, l + 1) if l - r + 1 <= 5]
    for signed in (1, 0):
        for (l1, r1), (l2, r2) in itertools.product(fmts, fmts):
            binops = abs(l1 - l2) + abs(r1 - r2) <= 3
            for n1 in raws(signed, l1, r1):
                a = mk(signed, l1, r1, n1)
                if binops:
                    for n2 in raws(signed, l2, r2):
                        b = mk(signed, l2, r2, n2)
                        for op, fn in (("add", lambda: a + b), ("sub", lambda: a - b), ("mul", lambda: a * b)):
                            try:
                                o = obs(fn(), signed)
                            except BaseException:
                                o = [0, 0, -99999]
                            cases.append([op, signed, l1, r1, n1, l2, r2, n2, 0, 0] + o)
                        try:
                            e = 1 if (a == b) else 0
                        except BaseException:
                            e = -99999
                        cases.append(["eq", signed, l1, r1, n1, l2, r2, n2, 0, 0, 0, 0, e])
                for rnd, sat in itertools.product((0, 1), (0, 1)):
                    try:
                        o = obs(a.resize(l2, r2, R.ROUND if rnd else R.TRUNCATE, O.SATURATE if sat else O.WRAP), signed)
                    except BaseException:
                        o = [0, 0, -99999]
                    cases.append(["resize", signed, l1, r1, n1, l2, r2, 0, rnd, sat] + o)
                try:
                    o = obs((SFixed if signed else UFixed)[l2:r2](a), signed)
                    cases.append(["conv", signed, l1, r1, n1, l2, r2, 0, 0, 0] + o)
                except BaseException:
                    pass
    json.dump({"cases": cases}, open(out, "w"))
    print(len(cases), sum(1 for c in cases if c[-1] == -99999))


if __name__ == "__main__":
    main(int(sys.argv[1]), sys.argv[2])
