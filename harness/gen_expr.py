"""Generator of expression designs (C02, C09, C05 value part).

Each design has operand input ports and one output port per expression, driven from a concurrent
context (`o<i>`) and from a clocked context (`q<i>`).  The generator's table of result types is NOT
trusted: the output port is declared with it, and spec/CoSem independently computes the value and
converts it to the declared port type, so a wrong table shows up as a disagreement, never silently.
"""
import itertools, random
from adl import *  # noqa

U, S, BV = "u", "s", "bv"


def rt_arith(op, ta, tb):
    """documented result type of arithmetic; ta/tb are ADL types or None for a python int"""
    kind = (ta or tb)["k"]
    wa = ta["w"] if ta else tb["w"]
    wb = tb["w"] if tb else ta["w"]
    if op in ("add", "sub"):
        return T(kind, max(wa, wb))
    if op == "mul":
        return T(kind, wa + wb)
    if op == "truncdiv":
        return T(kind, wa)
    return T(kind, wb)


def operand_types(maxw, kinds=(U, S)):
    return [T(k, w) for k in kinds for w in range(1, maxw + 1)]


def mk_entity(name, in_ports, exprs, with_clocked=True):
    """exprs: list of (result type, expr). -> ADL entity with outputs o<i> (concurrent) and q<i> (clocked)"""
    ports = [port("clk", "in", BIT)] + [port(n, "in", ty) for n, ty in in_ports]
    conc, seq = [], []
    for i, (rty, e) in enumerate(exprs):
        ports.append(port(f"o{i}", "out", rty, default=0))
        conc.append(assign("next", f"o{i}", e))
        if with_clocked:
            ports.append(port(f"q{i}", "out", rty, default=0))
            seq.append(assign("next", f"q{i}", e))
    ctxs = [conc_ctx("logic", conc)]
    if with_clocked:
        ctxs.append(seq_ctx("proc", seq))
    return entity(name, ports, [], ctxs)


def binary_families(maxw, tier):
    """yield (tag, in_ports, [(rty, expr)])"""
    a, b = ref("a"), ref("b")
    ar_ops = ["add", "sub", "mul", "truncdiv", "mod", "rem"]
    cmp_ops = ["eq", "ne", "lt", "le", "gt", "ge"]
    for kind in (U, S):
        for wa in range(1, maxw + 1):
            for wb in range(1, maxw + 1):
                ta, tb = T(kind, wa), T(kind, wb)
                ex = [(rt_arith(op, ta, tb), bin_(op, a, b)) for op in ar_ops]
                yield (f"ar_{kind}{wa}_{kind}{wb}", [("a", ta), ("b", tb)], ex)
                ex = [(BIT, bin_(op, a, b)) for op in cmp_ops]
                ex.append((BIT, chain(["le", "lt"], [a, b, pint(2)])))
                ex.append((BIT, bin_("land", bin_("lt", a, b), bin_("ne", a, pint(0)))))
                ex.append((BIT, bin_("lor", bin_("gt", a, b), un("not", bin_("eq", b, pint(0))))))
                ex.append((T(kind, max(wa, wb)), ifexp(bin_("lt", a, b), a, b) if wa == wb else bin_("add", a, b)))
                yield (f"cmp_{kind}{wa}_{kind}{wb}", [("a", ta), ("b", tb)], ex)
    # python int operands in either position
    ints = [0, 1, 2, 3, 5] if tier == "quick" else [0, 1, 2, 3, 4, 5, 7]
    for kind in (U, S):
        for wa in range(1, maxw + 1):
            ta = T(kind, wa)
            lo, hi = (0, (1 << wa) - 1) if kind == U else (-(1 << (wa - 1)), (1 << (wa - 1)) - 1)
            ex = []
            for c in sorted(set(ints + ([-1, -2] if kind == S else []))):
                if not (lo <= c <= hi):
                    continue
                for op in ar_ops:
                    if op in ("truncdiv", "mod", "rem") and c == 0:
                        continue
                    ex.append((rt_arith(op, ta, None), bin_(op, a, pint(c))))
                    # the Python int as LEFT operand (reflected methods); for division-like operators the vector is the
                    # divisor, a = 0 is undefined there and is skipped by the specification
                    if op in ("add", "sub", "mul") or c >= 0:
                        ex.append((rt_arith(op, None, ta), bin_(op, pint(c), a)))
                for op in cmp_ops:
                    ex.append((BIT, bin_(op, a, pint(c))))
            for i in range(0, len(ex), 10):
                yield (f"int_{kind}{wa}_{i}", [("a", ta)], ex[i:i + 10])


def bitwise_families(maxw, tier):
    a, b = ref("a"), ref("b")
    ops = ["and", "or", "xor"]
    yield ("bw_bit", [("a", BIT), ("b", BIT)],
           [(BIT, bin_(op, a, b)) for op in ops] + [(BIT, un("inv", a)), (BIT, bin_("eq", a, b)), (BIT, bin_("ne", a, b)),
            (BIT, un("not", a)), (BIT, bin_("land", a, b)), (BIT, bin_("lor", a, b)), (BIT, ifexp(a, b, un("inv", b)))])
    for kind in (BV, U, S):
        for w in range(1, maxw + 1):
            t = T(kind, w)
            ex = [(t, bin_(op, a, b)) for op in ops] + [(t, un("inv", a))]
            ex += [(BIT, bin_("eq", a, b)), (BIT, bin_("ne", a, b)), (BIT, un("bool", a)), (BIT, un("not", b))]
            ex.append((t, ifexp(un("bool", a), a, b)))
            if kind == S:
                ex += [(t, un("neg", a)), (t, un("abs", a))]
            if kind == U:
                ex += [(t, un("neg", a))]
            yield (f"bw_{kind}{w}", [("a", t), ("b", t)], ex)


def shift_families(maxw, tier):
    a, n = ref("a"), ref("n")
    for kind in (U, S):
        for w in range(1, maxw + 1):
            t = T(kind, w)
            ex = []
            for c in range(0, w + 2):
                ex.append((t, bin_("lshift", a, pint(c))))
                ex.append((t, bin_("rshift", a, pint(c))))
            yield (f"shc_{kind}{w}", [("a", t)], ex)
            for wn in (1, 2):
                ex = [(t, bin_("lshift", a, n)), (t, bin_("rshift", a, n))]
                yield (f"shv_{kind}{w}_u{wn}", [("a", t), ("n", T(U, wn))], ex)


def struct_families(maxw, tier):
    """concatenation, slices, indices (constant and run-time), views, resize"""
    a, b, i = ref("a"), ref("b"), ref("i")
    kinds = (BV, U, S)
    for ka in kinds:
        for wa in range(1, maxw + 1):
            ta = T(ka, wa)
            # concatenation with every kind / bit
            for kb in kinds + ("bit",):
                for wb in ([1] if kb == "bit" else range(1, maxw + 1)):
                    tb = BIT if kb == "bit" else T(kb, wb)
                    ex = [(T(BV, wa + wb), bin_("concat", a, b)), (T(BV, wa + wb), bin_("concat", b, a))]
                    yield (f"cat_{ka}{wa}_{kb}{wb}", [("a", ta), ("b", tb)], ex)
            ex = []
            for hi in range(wa):
                ex.append((BIT, idx(a, hi)))
                for lo in range(hi + 1):
                    ex.append((T(BV, hi - lo + 1), slice_(a, hi, lo)))
            for to in kinds:
                ex.append((T(to, wa), view(a, to)))
            if ka in (U, S):
                for w2 in range(wa, wa + 3):
                    ex.append((T(ka, w2), resize(a, w2)))
            # views feeding arithmetic / comparisons
            ex.append((T(U, wa), bin_("add", view(a, U), pint(1))))
            ex.append((BIT, bin_("lt", view(a, S), pint(0))))
            for j in range(0, len(ex), 12):
                yield (f"st_{ka}{wa}_{j}", [("a", ta)], ex[j:j + 12])
            # run-time index: index port wide enough for every position, values beyond are undefined
            wi = max(1, (wa - 1).bit_length())
            yield (f"dyn_{ka}{wa}", [("a", ta), ("i", T(U, wi))], [(BIT, dynidx(a, i))])


def nested_slice_families(tier):
    """chains of 2-4 constant slices / indices whose outer slices have a non-zero lower bound: the emitted range must be the
    composition of all offsets"""
    a = ref("a")
    out = []
    for kind in (BV, U):
        ta = T(kind, 8)
        ex = [(T(BV, 4), slice_(slice_(a, 7, 2), 4, 1)),                          # a[5:2]
              (T(BV, 2), slice_(slice_(slice_(a, 7, 2), 4, 1), 2, 1)),             # a[4:3]
              (T(BV, 3), slice_(slice_(slice_(a, 7, 1), 5, 2), 3, 1)),             # a[6:4]
              (BIT, idx(slice_(slice_(a, 7, 2), 4, 1), 2)),                        # a[5]
              (BIT, idx(slice_(slice_(slice_(a, 7, 1), 6, 1), 4, 2), 1)),          # a[5]
              (T(BV, 1), slice_(slice_(slice_(slice_(a, 7, 1), 6, 1), 4, 2), 1, 1)),  # a[5:5]
              (T(U, 2), view(slice_(slice_(slice_(a, 6, 1), 4, 1), 2, 1), U))]     # a[4:3] as unsigned
        out.append((f"nest_{kind}8", [("a", ta)], ex))
    return out


def select_families(tier):
    """cohdl.select_with (keys of the selector's type, with and without default, values of one or of mixed widths) and
    any / all over run-time values (C02: "select_with, any/all")"""
    a, b, c = ref("a"), ref("b"), ref("c")
    out = []
    for kind in (U, S):
        for w in (1, 2) if tier == "quick" else (1, 2, 3):
            t = T(kind, w)
            lo = 0 if kind == U else -(1 << (w - 1))
            keys = list(range(lo, lo + (1 << w)))
            one = pint(1 if (kind == U or w > 1) else -1)          # an integer operand must be representable in the vector's type
            ex = [(t, select_(a, [(pint(keys[0]), b), (pint(keys[-1]), c)], default=bin_("add", b, one))),
                  (t, select_(a, [(pint(k), (b if i % 2 else c)) for i, k in enumerate(keys)], default=b)),
                  (t, select_(a, [(pint(keys[0]), lit(t, 1 if kind == U else -1)), (pint(keys[-1]), c)], default=NULL)),
                  (T(kind, w + 1), select_(a, [(pint(keys[0]), resize(b, w + 1))], default=bin_("add", resize(c, w + 1), one))),
                  (BIT, select_(a, [(pint(keys[-1]), bin_("lt", b, c))], default=bin_("eq", b, c)))]
            out.append((f"sel_{kind}{w}", [("a", t), ("b", t), ("c", t)], ex))
    tb = T(BV, 2)
    out.append(("sel_bv2", [("a", tb), ("b", tb), ("c", tb)],
                [(tb, select_(a, [(strlit("00"), b), (strlit("10"), c)], default=bin_("xor", b, c))),
                 (tb, select_(a, [(strlit("01"), un("inv", b))], default=FULL))]))
    x, y, z = ref("x"), ref("y"), ref("z")
    u2 = T(U, 2)
    out.append(("anyall", [("x", BIT), ("y", BIT), ("z", BIT), ("a", u2)],
                [(BIT, any_([x, y, z])), (BIT, all_([x, y, z])), (BIT, any_([x, idx(a, 0), bin_("eq", a, pint(2))])),
                 (BIT, all_([y, bin_("ne", a, pint(0)), un("inv", z)])), (BIT, any_([a])), (BIT, all_([a, x])),
                 (BIT, un("not", any_([x, y]))), (BIT, bin_("land", any_([x, y]), all_([y, z])))]))
    return out


def random_trees(rng, n, maxw, depth=3):
    """seeded random well-typed numeric expression trees over ports a,b,c"""
    out = []
    for k in range(n):
        kind = rng.choice([U, S])
        ws = [rng.randint(1, maxw) for _ in range(3)]
        ports = [("a", T(kind, ws[0])), ("b", T(kind, ws[1])), ("c", T(kind, ws[2]))]

        def gen(d):
            if d == 0 or rng.random() < 0.25:
                nme, ty = rng.choice(ports)
                return ty, ref(nme)
            op = rng.choice(["add", "sub", "mul", "and", "ifexp", "shift", "resize", "neg"])
            ta, ea = gen(d - 1)
            tb, eb = gen(d - 1)
            if op in ("add", "sub", "mul"):
                rt = rt_arith(op, ta, tb)
                if rt["w"] > 8:
                    return ta, ea
                return rt, bin_(op, ea, eb)
            if op == "and":
                if ta["w"] != tb["w"]:
                    return ta, ea
                return ta, bin_(rng.choice(["and", "or", "xor"]), ea, eb)
            if op == "ifexp":
                if ta != tb:
                    return ta, ea
                tc, ec = gen(d - 1)
                return ta, ifexp(bin_(rng.choice(["lt", "eq", "ge"]), ec, pint(rng.randint(0, 1))), ea, eb)
            if op == "shift":
                return ta, bin_(rng.choice(["lshift", "rshift"]), ea, pint(rng.randint(0, ta["w"])))
            if op == "resize":
                w2 = min(8, ta["w"] + rng.randint(0, 2))
                return T(kind, w2), resize(ea, w2)
            return ta, un("neg", ea)

        ex = []
        for _ in range(4):
            ex.append(gen(depth))
        out.append((f"rnd_{k}", ports, ex))
    return out


def all_families(tier, rng):
    maxw = 3 if tier == "quick" else 4
    fams = []
    fams += list(binary_families(maxw, tier))
    fams += list(bitwise_families(maxw, tier))
    fams += list(shift_families(maxw, tier))
    fams += list(struct_families(3 if tier == "quick" else 4, tier))
    fams += nested_slice_families(tier)
    fams += select_families(tier)
    fams += random_trees(rng, 60 if tier == "quick" else 600, 3)
    return fams
