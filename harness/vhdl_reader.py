"""Strict reader for the VHDL-93 subset CoHDL can emit (and close neighbours) -> JSON-able AST.

Pure syntax: it does not type, resolve or evaluate anything.  Three outcomes:
  * AST (dict)                      -- read() returns it
  * VhdlSyntaxError                 -- the token sequence matches no VHDL production (a C06 fact)
  * VhdlUnsupported                 -- legal VHDL the TLA+ semantics does not model (inconclusive, never a violation)

Conventions of the AST (consumed by spec/VhdlSem.tla, spec/VhdlStatic.tla):
  names are lower-cased in field "n" (VHDL is case-insensitive) and kept verbatim in "raw";
  bit-string literals are arrays of 0/1/2 with index 0 = right-most character (bit 0);
  expression kinds: name int char str bool? app slice qual bin un agg
  statement kinds:  sassign vassign if case null assert return
  concurrent kinds: cassign select process inst cassert
"""
import re

RESERVED_93 = set("""abs access after alias all and architecture array assert attribute begin block body buffer bus
case component configuration constant disconnect downto else elsif end entity exit file for function generate
generic group guarded if impure in inertial inout is label library linkage literal loop map mod nand new next nor
not null of on open or others out package port postponed procedure process pure range record register reject rem
report return rol ror select severity signal shared sla sll sra srl subtype then to transport type unaffected
units until use variable wait when while with xnor xor""".split())

UNSUPPORTED_KW = {"wait", "loop", "while", "for", "generate", "alias", "block", "procedure", "package",
                  "component", "configuration", "record", "access", "file", "after", "transport",
                  "guarded", "exit", "next", "subtype", "shared", "impure", "pure", "units", "group",
                  "disconnect", "bus", "register", "linkage", "postponed", "inertial", "reject", "unaffected"}


class VhdlSyntaxError(Exception):
    pass


class VhdlUnsupported(Exception):
    pass


_TOKEN_RE = re.compile(r"""
    (?P<ws>\s+)
  | (?P<comment>--[^\n]*)
  | (?P<str>"(?:[^"\n]|"")*")
  | (?P<bitstr>[bBoOxX]"[0-9a-fA-F_]*")
  | (?P<char>'.'(?!\w*'))            # character literal, not followed by something making it a tick
  | (?P<id>[A-Za-z][A-Za-z0-9_]*)
  | (?P<num>[0-9][0-9_]*(?:\.[0-9_]+)?(?:[eE][+-]?[0-9]+)?)
  | (?P<op><=|>=|=>|:=|/=|\*\*|<>|[-+*/&=<>():;,.'|])
""", re.X)


def tokenize(text):
    toks = []
    pos = 0
    line = 1
    n = len(text)
    while pos < n:
        # character literal vs tick: handle `unsigned'("..")` => tick followed by '('
        m = _TOKEN_RE.match(text, pos)
        if not m:
            raise VhdlSyntaxError(f"line {line}: illegal character {text[pos]!r}")
        kind = m.lastgroup
        s = m.group(kind)
        if kind == "char":
            # disambiguate: after an identifier or ')' a ' is a tick (qualified expr / attribute)
            if toks and (toks[-1][0] == "id" or toks[-1][1] == ")") and text[pos + 1] == "(":
                kind, s = "op", "'"
                m_end = pos + 1
            else:
                m_end = m.end()
        else:
            m_end = m.end()
        if kind not in ("ws", "comment"):
            toks.append((kind, s, line))
        line += text.count("\n", pos, m_end)
        pos = m_end
    toks.append(("eof", "", line))
    return toks


def _check_identifier(raw, line):
    if raw.endswith("_") or "__" in raw:
        raise VhdlSyntaxError(f"line {line}: illegal basic identifier {raw!r}")


_BITCODE = {"0": 0, "1": 1}


def _bits_of(s):
    # right-most character first; anything other than 0/1 is the single unknown 2
    return [_BITCODE.get(c, 2) for c in reversed(s)]


class Parser:
    def __init__(self, text):
        self.toks = tokenize(text)
        self.i = 0
        self.idents = []  # every identifier occurrence (raw) -- for reserved-word / legality checks

    # --- token helpers
    def peek(self, k=0):
        return self.toks[min(self.i + k, len(self.toks) - 1)]

    def at_kw(self, *kws):
        t = self.peek()
        return t[0] == "id" and t[1].lower() in kws

    def at_op(self, *ops):
        t = self.peek()
        return t[0] == "op" and t[1] in ops

    def next(self):
        t = self.toks[self.i]
        self.i += 1
        return t

    def err(self, what):
        t = self.peek()
        raise VhdlSyntaxError(f"line {t[2]}: expected {what}, found {t[1]!r}")

    def kw(self, *kws):
        if not self.at_kw(*kws):
            self.err("/".join(kws))
        return self.next()[1].lower()

    def op(self, *ops):
        if not self.at_op(*ops):
            self.err(" ".join(ops))
        return self.next()[1]

    def opt_kw(self, *kws):
        if self.at_kw(*kws):
            return self.next()[1].lower()
        return None

    def opt_op(self, *ops):
        if self.at_op(*ops):
            return self.next()[1]
        return None

    def ident(self):
        t = self.peek()
        if t[0] != "id":
            self.err("identifier")
        low = t[1].lower()
        if low in RESERVED_93:
            if low in UNSUPPORTED_KW:
                raise VhdlUnsupported(f"line {t[2]}: construct '{low}' is not modelled")
            raise VhdlSyntaxError(f"line {t[2]}: reserved word {t[1]!r} used as identifier")
        _check_identifier(t[1], t[2])
        self.next()
        self.idents.append(t[1])
        return t[1]

    # --- design file
    def design_file(self):
        units = []
        ctx = []
        while self.peek()[0] != "eof":
            if self.at_kw("library"):
                self.next()
                names = [self.ident()]
                while self.opt_op(","):
                    names.append(self.ident())
                self.op(";")
                ctx.append({"k": "library", "names": [x.lower() for x in names]})
            elif self.at_kw("use"):
                self.next()
                parts = [self.ident()]
                while self.opt_op("."):
                    if self.at_kw("all"):
                        self.next()
                        parts.append("all")
                    else:
                        parts.append(self.ident())
                self.op(";")
                ctx.append({"k": "use", "path": [x.lower() for x in parts]})
            elif self.at_kw("entity"):
                u = self.entity_decl()
                u["ctx"] = ctx
                ctx = []
                units.append(u)
            elif self.at_kw("architecture"):
                u = self.architecture()
                u["ctx"] = ctx
                ctx = []
                units.append(u)
            else:
                t = self.peek()
                if t[0] == "id" and t[1].lower() in UNSUPPORTED_KW:
                    raise VhdlUnsupported(f"line {t[2]}: design unit '{t[1]}' is not modelled")
                self.err("library/use/entity/architecture")
        return {"units": units}

    def entity_decl(self):
        self.kw("entity")
        name = self.ident()
        self.kw("is")
        generics = []
        ports = []
        if self.at_kw("generic"):
            self.next()
            generics = self.interface_list(generic=True)
            self.op(";")
        if self.at_kw("port"):
            self.next()
            ports = self.interface_list(generic=False)
            self.op(";")
        self.kw("end")
        self.opt_kw("entity")
        if self.peek()[0] == "id" and not self.at_kw("is"):
            endname = self.ident()
            if endname.lower() != name.lower():
                raise VhdlSyntaxError(f"entity end name {endname!r} does not match {name!r}")
        self.op(";")
        return {"k": "entity", "n": name.lower(), "raw": name, "generics": generics, "ports": ports}

    def interface_list(self, generic):
        self.op("(")
        items = []
        while True:
            self.opt_kw("signal", "constant")
            names = [self.ident()]
            while self.opt_op(","):
                names.append(self.ident())
            self.op(":")
            mode = "in"
            if self.at_kw("in", "out", "inout", "buffer"):
                mode = self.next()[1].lower()
            ty = self.subtype_indication()
            init = None
            if self.opt_op(":="):
                init = self.expr()
            for nm in names:
                it = {"n": nm.lower(), "raw": nm, "mode": mode, "ty": ty,
                      "init": init if init is not None else {"k": "none"}}
                items.append(it)
            if self.opt_op(";"):
                if self.at_op(")"):
                    raise VhdlSyntaxError(f"line {self.peek()[2]}: ';' before ')' in interface list")
                continue
            break
        self.op(")")
        return items

    def subtype_indication(self):
        name = self.ident()
        low = name.lower()
        ty = {"k": "tname", "n": low, "raw": name}
        if self.at_op("("):
            self.next()
            a = self.simple_expr()
            d = self.kw("downto", "to")
            b = self.simple_expr()
            self.op(")")
            ty["range"] = {"l": a, "d": d, "r": b}
        elif self.at_kw("range"):
            self.next()
            a = self.simple_expr()
            d = self.kw("downto", "to")
            b = self.simple_expr()
            ty["irange"] = {"l": a, "d": d, "r": b}
        return ty

    def architecture(self):
        self.kw("architecture")
        name = self.ident()
        self.kw("of")
        ent = self.ident()
        self.kw("is")
        decls = []
        while not self.at_kw("begin"):
            decls.append(self.block_decl())
        self.kw("begin")
        stmts = []
        while not self.at_kw("end"):
            stmts.append(self.concurrent_stmt())
        self.kw("end")
        self.opt_kw("architecture")
        if self.peek()[0] == "id":
            endname = self.ident()
            if endname.lower() != name.lower():
                raise VhdlSyntaxError(f"architecture end name {endname!r} does not match {name!r}")
        self.op(";")
        return {"k": "arch", "n": name.lower(), "raw": name, "of": ent.lower(), "decls": decls, "stmts": stmts}

    def block_decl(self):
        if self.at_kw("signal", "variable", "constant"):
            kind = self.next()[1].lower()
            names = [self.ident()]
            while self.opt_op(","):
                names.append(self.ident())
            self.op(":")
            ty = self.subtype_indication()
            init = None
            if self.opt_op(":="):
                init = self.expr()
            self.op(";")
            if len(names) != 1:
                raise VhdlUnsupported("multi-name object declaration")
            return {"k": kind, "n": names[0].lower(), "raw": names[0], "ty": ty,
                    "init": init if init is not None else {"k": "none"}}
        if self.at_kw("type"):
            self.next()
            name = self.ident()
            self.kw("is")
            if self.at_op("("):
                self.next()
                lits = []
                while True:
                    t = self.peek()
                    if t[0] == "char":
                        raise VhdlUnsupported("character enumeration literal")
                    lits.append(self.ident())
                    if not self.opt_op(","):
                        break
                self.op(")")
                self.op(";")
                return {"k": "enum", "n": name.lower(), "raw": name, "lits": [x.lower() for x in lits], "rawlits": lits}
            if self.at_kw("array"):
                self.next()
                self.op("(")
                a = self.simple_expr()
                d = self.kw("to", "downto")
                b = self.simple_expr()
                self.op(")")
                self.kw("of")
                el = self.subtype_indication()
                self.op(";")
                return {"k": "arrtype", "n": name.lower(), "raw": name, "l": a, "d": d, "r": b, "el": el}
            raise VhdlUnsupported("type definition other than enumeration / constrained array")
        if self.at_kw("function"):
            return self.function_body()
        if self.at_kw("attribute"):
            self.next()
            name = self.ident()
            if self.opt_op(":"):
                ty = self.subtype_indication()
                self.op(";")
                return {"k": "attrdecl", "n": name.lower(), "raw": name, "ty": ty}
            self.kw("of")
            target = self.ident()
            self.op(":")
            cls = self.next()[1].lower()
            self.kw("is")
            val = self.expr()
            self.op(";")
            return {"k": "attrspec", "n": name.lower(), "raw": name, "of": target.lower(), "cls": cls, "val": val}
        t = self.peek()
        if t[0] == "id" and t[1].lower() in UNSUPPORTED_KW:
            raise VhdlUnsupported(f"line {t[2]}: declaration '{t[1]}' is not modelled")
        self.err("declaration")

    def function_body(self):
        self.kw("function")
        name = self.ident()
        params = []
        if self.at_op("("):
            params = self.interface_list(generic=False)
        self.kw("return")
        rty = self.subtype_indication()
        self.kw("is")
        decls = []
        while not self.at_kw("begin"):
            decls.append(self.block_decl())
        self.kw("begin")
        body = self.seq_stmts(("end",))
        self.kw("end")
        self.opt_kw("function")
        if self.peek()[0] == "id":
            self.ident()
        self.op(";")
        return {"k": "function", "n": name.lower(), "raw": name, "params": params, "ret": rty, "decls": decls, "body": body}

    # --- concurrent statements
    def concurrent_stmt(self):
        label = None
        if self.peek()[0] == "id" and self.peek(1) == ("op", ":", self.peek(1)[2]) and not self.at_kw(*RESERVED_93):
            label = self.ident()
            self.op(":")
        if self.at_kw("process"):
            return self.process(label)
        if self.at_kw("entity"):
            return self.instance(label)
        if self.at_kw("with"):
            self.next()
            sel = self.expr()
            self.kw("select")
            target = self.name()
            self.op("<=")
            arms = []
            while True:
                val = self.expr()
                self.kw("when")
                ch = self.choices()
                arms.append({"ch": ch, "e": val})
                if self.opt_op(","):
                    continue
                break
            self.op(";")
            return {"k": "select", "label": (label or "").lower(), "sel": sel, "t": target, "arms": arms}
        if self.at_kw("assert"):
            s = self.assert_stmt()
            s["k"] = "cassert"
            return s
        t = self.peek()
        if t[0] == "id" and t[1].lower() in UNSUPPORTED_KW:
            raise VhdlUnsupported(f"line {t[2]}: concurrent '{t[1]}' is not modelled")
        target = self.name()
        self.op("<=")
        val = self.expr()
        if self.at_kw("when"):
            raise VhdlUnsupported("conditional signal assignment")
        if self.at_kw("after"):
            raise VhdlUnsupported("after clause")
        self.op(";")
        return {"k": "cassign", "label": (label or "").lower(), "t": target, "e": val}

    def process(self, label):
        self.kw("process")
        sens = None
        if self.at_op("("):
            self.next()
            sens = {"all": 0, "names": []}
            if self.at_kw("all"):
                self.next()
                sens["all"] = 1
            else:
                while True:
                    sens["names"].append(self.name())
                    if not self.opt_op(","):
                        break
            self.op(")")
        else:
            raise VhdlUnsupported("process without sensitivity list (wait statements are not modelled)")
        self.opt_kw("is")
        decls = []
        while not self.at_kw("begin"):
            decls.append(self.block_decl())
        self.kw("begin")
        body = self.seq_stmts(("end",))
        self.kw("end")
        self.kw("process")
        if self.peek()[0] == "id":
            self.ident()
        self.op(";")
        return {"k": "process", "label": label.lower() if label else "", "rawlabel": label or "", "sens": sens, "decls": decls, "body": body}

    def instance(self, label):
        self.kw("entity")
        lib = self.ident()
        self.op(".")
        ent = self.ident()
        arch = None
        if self.at_op("("):
            self.next()
            arch = self.ident()
            self.op(")")
        gmap = []
        pmap = []
        if self.at_kw("generic"):
            self.next()
            self.kw("map")
            gmap = self.assoc_list()
        if self.at_kw("port"):
            self.next()
            self.kw("map")
            pmap = self.assoc_list()
        self.op(";")
        if label is None:
            raise VhdlSyntaxError("instantiation without label")
        return {"k": "inst", "label": label.lower(), "rawlabel": label, "lib": lib.lower(), "entity": ent.lower(),
                "arch": arch.lower() if arch else "", "gmap": gmap, "pmap": pmap}

    def assoc_list(self):
        self.op("(")
        items = []
        while True:
            formal = self.name()
            self.op("=>")
            if self.at_kw("open"):
                self.next()
                actual = {"k": "open"}
            else:
                actual = self.expr()
            items.append({"f": formal, "a": actual})
            if not self.opt_op(","):
                break
        self.op(")")
        return items

    # --- sequential statements
    def seq_stmts(self, terminators):
        out = []
        while not self.at_kw(*terminators):
            out.append(self.seq_stmt())
        return out

    def seq_stmt(self):
        t = self.peek()
        if self.at_kw("if"):
            self.next()
            c = self.expr()
            self.kw("then")
            th = self.seq_stmts(("elsif", "else", "end"))
            node = {"k": "if", "c": c, "th": th, "el": []}
            cur = node
            while self.at_kw("elsif"):
                self.next()
                c2 = self.expr()
                self.kw("then")
                th2 = self.seq_stmts(("elsif", "else", "end"))
                nxt = {"k": "if", "c": c2, "th": th2, "el": []}
                cur["el"] = [nxt]
                cur = nxt
            if self.at_kw("else"):
                self.next()
                cur["el"] = self.seq_stmts(("end",))
            self.kw("end")
            self.kw("if")
            self.op(";")
            return node
        if self.at_kw("case"):
            self.next()
            e = self.expr()
            self.kw("is")
            arms = []
            while self.at_kw("when"):
                self.next()
                ch = self.choices()
                self.op("=>")
                b = self.seq_stmts(("when", "end"))
                arms.append({"ch": ch, "b": b})
            if not arms:
                raise VhdlSyntaxError("case statement without alternatives")
            self.kw("end")
            self.kw("case")
            self.op(";")
            return {"k": "case", "e": e, "arms": arms}
        if self.at_kw("null"):
            self.next()
            self.op(";")
            return {"k": "null"}
        if self.at_kw("assert"):
            return self.assert_stmt()
        if self.at_kw("return"):
            self.next()
            e = {"k": "none"}
            if not self.at_op(";"):
                e = self.expr()
            self.op(";")
            return {"k": "return", "e": e}
        if self.at_kw("report"):
            raise VhdlUnsupported("report statement")
        if t[0] == "id" and t[1].lower() in UNSUPPORTED_KW:
            raise VhdlUnsupported(f"line {t[2]}: statement '{t[1]}' is not modelled")
        target = self.name()
        if self.at_op("<="):
            self.next()
            e = self.expr()
            if self.at_kw("after"):
                raise VhdlUnsupported("after clause")
            self.op(";")
            return {"k": "sassign", "t": target, "e": e}
        if self.at_op(":="):
            self.next()
            e = self.expr()
            self.op(";")
            return {"k": "vassign", "t": target, "e": e}
        self.err("'<=' or ':='")

    def assert_stmt(self):
        self.kw("assert")
        c = self.expr()
        msg = ""
        if self.at_kw("report"):
            self.next()
            t = self.peek()
            if t[0] != "str":
                raise VhdlUnsupported("non-literal report expression")
            self.next()
            msg = t[1][1:-1]
        if self.at_kw("severity"):
            self.next()
            self.ident()
        self.op(";")
        return {"k": "assert", "c": c, "m": msg}

    def choices(self):
        out = []
        while True:
            if self.at_kw("others"):
                self.next()
                out.append({"k": "others"})
            else:
                out.append(self.simple_expr())
            if not self.opt_op("|"):
                break
        return out

    # --- expressions (LRM 7.1 precedence)
    LOGICAL = ("and", "or", "xor", "nand", "nor", "xnor")
    RELOPS = ("=", "/=", "<", "<=", ">", ">=")
    SHIFTOPS = ("sll", "srl", "sla", "sra", "rol", "ror")

    def expr(self):
        left = self.relation()
        if self.at_kw(*self.LOGICAL):
            op = self.peek()[1].lower()
            first = True
            while self.at_kw(*self.LOGICAL):
                op2 = self.next()[1].lower()
                if op2 != op:
                    raise VhdlSyntaxError(f"line {self.peek()[2]}: mixed logical operators '{op}' and '{op2}' without parentheses")
                if not first and op in ("nand", "nor"):
                    raise VhdlSyntaxError(f"'{op}' is not associative; parentheses required")
                right = self.relation()
                left = {"k": "bin", "op": op, "l": left, "r": right}
                first = False
        return left

    def relation(self):
        left = self.shift_expr()
        if self.at_op(*self.RELOPS):
            op = self.next()[1]
            right = self.shift_expr()
            left = {"k": "bin", "op": op, "l": left, "r": right}
            if self.at_op(*self.RELOPS):
                raise VhdlSyntaxError(f"line {self.peek()[2]}: chained relational operators")
        return left

    def shift_expr(self):
        left = self.simple_expr()
        if self.at_kw(*self.SHIFTOPS):
            op = self.next()[1].lower()
            right = self.simple_expr()
            left = {"k": "bin", "op": op, "l": left, "r": right}
        return left

    def simple_expr(self):
        sign = None
        if self.at_op("+", "-"):
            sign = self.next()[1]
        left = self.term()
        if sign == "-":
            left = {"k": "un", "op": "-", "e": left}
        elif sign == "+":
            left = {"k": "un", "op": "+", "e": left}
        while self.at_op("+", "-", "&"):
            op = self.next()[1]
            right = self.term()
            left = {"k": "bin", "op": op, "l": left, "r": right}
        return left

    def term(self):
        left = self.factor()
        while self.at_op("*", "/") or self.at_kw("mod", "rem"):
            op = self.next()[1].lower()
            right = self.factor()
            left = {"k": "bin", "op": op, "l": left, "r": right}
        return left

    def factor(self):
        if self.at_kw("abs"):
            self.next()
            return {"k": "un", "op": "abs", "e": self.primary()}
        if self.at_kw("not"):
            self.next()
            return {"k": "un", "op": "not", "e": self.primary()}
        p = self.primary()
        if self.at_op("**"):
            self.next()
            q = self.primary()
            return {"k": "bin", "op": "**", "l": p, "r": q}
        return p

    def primary(self):
        t = self.peek()
        if t[0] == "num":
            self.next()
            s = t[1].replace("_", "")
            if "." in s or "e" in s.lower():
                raise VhdlUnsupported("real / exponent literal")
            v = int(s)
            if v >= 2 ** 31:
                raise VhdlUnsupported("integer literal >= 2**31")
            return {"k": "int", "v": v}
        if t[0] == "char":
            self.next()
            c = t[1][1]
            return {"k": "char", "v": _BITCODE.get(c, 2), "c": c}
        if t[0] == "str":
            self.next()
            s = t[1][1:-1]
            return {"k": "str", "b": _bits_of(s), "w": len(s)}
        if t[0] == "bitstr":
            raise VhdlUnsupported("based bit-string literal")
        if self.at_op("("):
            return self.paren_or_aggregate()
        if t[0] == "id":
            low = t[1].lower()
            if low in ("true", "false"):
                self.next()
                return {"k": "boollit", "v": 1 if low == "true" else 0}
            if low in ("new", "null", "open"):
                raise VhdlUnsupported(f"'{low}' in expression")
            return self.name()
        self.err("expression")

    def paren_or_aggregate(self):
        self.op("(")
        items = []
        positional = []
        while True:
            # choice => expr | expr
            if self.at_kw("others"):
                self.next()
                self.op("=>")
                items.append({"c": {"k": "others"}, "e": self.expr()})
            else:
                e = self.expr()
                if self.at_op("=>"):
                    self.next()
                    items.append({"c": e, "e": self.expr()})
                elif self.at_kw("downto", "to"):
                    raise VhdlUnsupported("range choice in aggregate")
                else:
                    positional.append(e)
            if not self.opt_op(","):
                break
        self.op(")")
        if positional and not items and len(positional) == 1:
            return {"k": "paren", "e": positional[0]}
        if positional and items:
            raise VhdlUnsupported("mixed positional/named aggregate")
        if positional:
            raise VhdlUnsupported("positional aggregate")
        return {"k": "agg", "items": items}

    def name(self):
        raw = self.ident()
        node = {"k": "name", "n": raw.lower(), "raw": raw}
        while True:
            if self.at_op("("):
                self.next()
                first = self.expr()
                if self.at_kw("downto", "to"):
                    d = self.next()[1].lower()
                    second = self.expr()
                    self.op(")")
                    node = {"k": "slice", "p": node, "l": first, "d": d, "r": second}
                else:
                    args = [first]
                    while self.opt_op(","):
                        args.append(self.expr())
                    self.op(")")
                    node = {"k": "app", "f": node, "a": args}
            elif self.at_op("'"):
                self.next()
                if self.at_op("("):
                    inner = self.paren_or_aggregate()
                    if node["k"] != "name":
                        raise VhdlSyntaxError("qualified expression needs a type mark")
                    node = {"k": "qual", "t": node["n"], "e": inner["e"] if inner["k"] == "paren" else inner}
                else:
                    raise VhdlUnsupported("attribute name")
            elif self.at_op("."):
                raise VhdlUnsupported("selected name")
            else:
                break
        return node


def read(text):
    p = Parser(text)
    ast = p.design_file()
    ast["idents"] = sorted(set(p.idents))
    return ast


def classify(text):
    """-> ("ok", ast) | ("syntax_error", msg) | ("unsupported", msg)"""
    try:
        return "ok", read(text)
    except VhdlSyntaxError as e:
        return "syntax_error", str(e)
    except VhdlUnsupported as e:
        return "unsupported", str(e)


if __name__ == "__main__":
    import sys, json
    for fn in sys.argv[1:]:
        st, r = classify(open(fn).read())
        if st != "ok":
            print(fn, st, r)
        else:
            print(fn, "ok", len(json.dumps(r)))
