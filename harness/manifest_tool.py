"""maintain MANIFEST.json:  manifest_tool.py claim <Cxx> <category> <engine> <technique> <text> <note>"""
import json, sys
P = "/verif/MANIFEST.json"


def claim(pid, category, engine, technique, text, note):
    m = json.load(open(P))
    m["checks"] = [c for c in m["checks"] if c["property_id"] != pid]
    m["checks"].append({"property_id": pid, "quick_cmd": f"./check {pid} --tier quick", "thorough_cmd": f"./check {pid} --tier thorough",
                        "evidence_file": f"/verif/evidence/{pid}.json", "replay_cmd_template": f"./check {pid} --replay {{path}}",
                        "engine": engine, "level_claimed": {"category": category, "text": text, "design_ref": f"DESIGN.md section 4 {pid}"},
                        "level_note": note, "technique": technique})
    m["checks"].sort(key=lambda c: c["property_id"])
    claimed = {c["property_id"] for c in m["checks"]}
    m["not_applicable"] = [n for n in m.get("not_applicable", []) if n["property_id"] not in claimed]
    names = {e["name"] for e in m["engines"]}
    if engine not in names:
        m["engines"].append({"name": engine, "path": "spec/mc", "serves_properties": [], "kind_free_text": technique})
    for e in m["engines"]:
        e["serves_properties"] = sorted(c["property_id"] for c in m["checks"] if c["engine"] == e["name"])
    json.dump(m, open(P, "w"), indent=1)


if __name__ == "__main__":
    if sys.argv[1] == "claim":
        claim(*sys.argv[2:8])
