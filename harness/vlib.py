"""Shared runner machinery: compile observations, run TLC shards, evidence, known findings."""
import os, sys, json, time, subprocess, tempfile, shutil, hashlib, re, random, concurrent.futures as cf

VERIF = os.path.dirname(os.path.dirname(os.path.abspath(__file__)))
REPO = os.environ.get("VERIF_REPO", "/repo")
VENV_PY = "/venv/bin/python"
TLA_CP = "/opt/veriftools/tla/tla2tools.jar:/opt/veriftools/tla/CommunityModules-deps.jar"
SPEC = os.path.join(VERIF, "spec")
NCPU = min(16, os.cpu_count() or 4)

sys.path.insert(0, os.path.join(VERIF, "harness"))
import vhdl_reader  # noqa
import adl as ADL  # noqa


def seed():
    try:
        return int(os.environ.get("VERIF_SEED", "0"))
    except ValueError:
        return 0


class Scratch:
    """temporary directory outside /repo and /verif, removed on exit"""

    def __enter__(self):
        self.path = tempfile.mkdtemp(prefix="cohdl_verif_")
        return self.path

    def __exit__(self, *a):
        shutil.rmtree(self.path, ignore_errors=True)


# ------------------------------------------------------------------ compile
def _drive(args):
    jobs, idx, scratch = args
    jf = os.path.join(scratch, f"jobs_{idx}.json")
    of = os.path.join(scratch, f"out_{idx}.json")
    json.dump(jobs, open(jf, "w"))
    env = dict(os.environ, PYTHONPATH=REPO, PYTHONHASHSEED="0", COHDL_VERIF="1")
    p = subprocess.run([VENV_PY, os.path.join(VERIF, "harness", "drive.py"), "compile", jf, of, REPO],
                       cwd=scratch, env=env, capture_output=True, text=True)
    if p.returncode != 0 or not os.path.exists(of):
        raise RuntimeError("compile driver failed: " + p.stderr[-2000:])
    return json.load(open(of))


def compile_entities(ents, scratch, per_module=8, tag="g"):
    """ents: list of ADL entities (unique names). -> dict name -> observation"""
    mods = []
    for i in range(0, len(ents), per_module):
        chunk = ents[i:i + per_module]
        plain = [e for e in chunk if "source_override" not in e]
        src = ADL.module_source(plain) if plain else ADL.HEADER
        # designs whose compiled source is hand-written (library components); the ADL is then the reference description
        src += "\n".join(e["source_override"] for e in chunk if "source_override" in e)
        mods.append({"name": f"{tag}_{i // per_module:04d}", "source": src, "entities": [e["name"] for e in chunk]})
    return compile_modules(mods, scratch)


def compile_modules(mods, scratch):
    nproc = max(1, min(NCPU, len(mods)))
    groups = [{"modules": mods[i::nproc]} for i in range(nproc)]
    res = {}
    with cf.ThreadPoolExecutor(nproc) as ex:
        for out in ex.map(_drive, [(g, i, scratch) for i, g in enumerate(groups)]):
            for o in out:
                res[o["entity"]] = o
    return res


def read_obs(ob):
    """attach reader result to an accepted observation"""
    if ob["outcome"] != "accepted":
        ob["reader"] = "n/a"
        return ob
    st, r = vhdl_reader.classify(ob["vhdl"])
    ob["reader"] = st
    if st == "ok":
        ob["ast"] = r
    else:
        ob["reader_msg"] = r
    return ob


# ------------------------------------------------------------------ TLC
def _run_tlc_one(args):
    module, cfg, obsfile, metadir, timeout, extra_env, heap = args
    env = dict(os.environ, OBS_FILE=obsfile)
    env.update(extra_env or {})
    cmd = ["java", "-XX:+UseParallelGC", "-XX:ParallelGCThreads=2", "-XX:CICompilerCount=2", "-Xss256m", f"-Xmx{heap}", f"-DTLA-Library={SPEC}:{os.path.join(SPEC, 'mc')}",
           "-cp", TLA_CP, "tlc2.TLC", "-workers", "1", "-metadir", metadir, "-noGenerateSpecTE",
           "-config", os.path.join(SPEC, "mc", cfg), os.path.join(SPEC, "mc", module)]
    t0 = time.time()
    try:
        p = subprocess.run(cmd, env=env, capture_output=True, text=True, timeout=timeout, cwd=metadir)
        out, rc, to = p.stdout + p.stderr, p.returncode, False
    except subprocess.TimeoutExpired as e:
        out = (e.stdout.decode() if isinstance(e.stdout, bytes) else (e.stdout or "")) + "\nTIMEOUT"
        rc, to = -9, True
    return {"out": out, "rc": rc, "timeout": to, "wall": time.time() - t0, "obsfile": obsfile}


_TUPLE_RE = re.compile(r'<<\s*"(VIOL|STAT|CASE|INFO)"\s*,(.*?)>>', re.S)


def parse_tlc(out):
    """-> dict(viol=[(id, err)], stat={id: [..]}, case={id: verdict}, generated, distinct, errors=[...])
    TLC pretty-prints long tuples over several lines, so tuples are matched over the whole output."""
    r = {"viol": [], "stat": {}, "case": {}, "info": [], "generated": 0, "distinct": 0, "errors": [], "finished": False}
    for m in _TUPLE_RE.finditer(out):
        body = " ".join(m.group(2).split())
        try:
            items = json.loads("[" + body.replace("TRUE", "true").replace("FALSE", "false") + "]")
        except Exception:
            r["errors"].append("unparsable tuple: " + body[:200])
            continue
        if m.group(1) == "VIOL":
            r["viol"].append(tuple(items))
        elif m.group(1) == "STAT":
            r["stat"][items[0]] = items[1:]
        elif m.group(1) == "CASE":
            r["case"][items[0]] = items[1] if len(items) == 2 else items[1:]
        else:
            r["info"].append(items)
    for line in out.splitlines():
        m = re.match(r"^(\d+) states generated, (\d+) distinct states found", line)
        if m:
            r["generated"], r["distinct"] = int(m.group(1)), int(m.group(2))
        if line.startswith("Model checking completed") or line.startswith("Finished in"):
            r["finished"] = True
        if line.startswith("Error:") or ("Exception" in line and "at " not in line):
            r["errors"].append(line[:300])
    return r


def run_tlc_shards(module, cfg, shards, scratch, timeout=600, extra_env=None, heap="3g", nproc=None):
    """shards: list of JSON-able observation batches. Runs one single-worker TLC per shard in parallel."""
    jobs = []
    for i, sh in enumerate(shards):
        f = os.path.join(scratch, f"obs_{module}_{i}.json")
        json.dump(sh, open(f, "w"))
        md = os.path.join(scratch, f"meta_{module}_{i}")
        os.makedirs(md, exist_ok=True)
        jobs.append((module, cfg, f, md, timeout, extra_env, heap))
    results = []
    with cf.ThreadPoolExecutor(nproc or NCPU) as ex:
        for res in ex.map(_run_tlc_one, jobs):
            res["parsed"] = parse_tlc(res["out"])
            results.append(res)
    return results


def run_design_level(module, cfg, scratch, timeout=600):
    """TLC on a specification alone (no implementation involved): -> (ok, generated, distinct, output)"""
    md = os.path.join(scratch, "design_" + module)
    os.makedirs(md, exist_ok=True)
    cmd = ["java", "-XX:+UseParallelGC", "-Xmx3g", f"-DTLA-Library={SPEC}:{os.path.join(SPEC, 'mc')}", "-cp", TLA_CP, "tlc2.TLC",
           "-workers", "4", "-metadir", md, "-noGenerateSpecTE", "-config", os.path.join(SPEC, "mc", cfg), os.path.join(SPEC, "mc", module)]
    try:
        p = subprocess.run(cmd, capture_output=True, text=True, timeout=timeout, cwd=md)
        out = p.stdout + p.stderr
    except subprocess.TimeoutExpired:
        return False, 0, 0, "TIMEOUT"
    m = re.search(r"(\d+) states generated, (\d+) distinct states found", out)
    return "No error has been found" in out, int(m.group(1)) if m else 0, int(m.group(2)) if m else 0, out


def shard(items, n):
    n = max(1, min(n, len(items)))
    return [items[i::n] for i in range(n)]


# ------------------------------------------------------------------ evidence / findings
def load_known():
    p = os.path.join(VERIF, "KNOWN_FINDINGS.json")
    if not os.path.exists(p):
        return {"findings": [], "fixed": []}
    return json.load(open(p))


def known_for(prop):
    return [f for f in load_known().get("findings", []) if f["property"] == prop]


def write_evidence(prop, tier, level, coverage, wall, violations, assumptions):
    ev = {"property_id": prop, "tier": tier, "seed": seed(), "level": level, "coverage": coverage,
          "assumptions": assumptions, "wall_s": round(wall, 2), "violations": violations}
    out = os.environ.get("VERIF_OUT", VERIF)     # the self-test redirects evidence/replays of runs on seeded copies
    os.makedirs(os.path.join(out, "evidence"), exist_ok=True)
    with open(os.path.join(out, "evidence", f"{prop}.json"), "w") as fh:
        json.dump(ev, fh, indent=1)
    return ev


def write_replay(prop, key, payload):
    out = os.environ.get("VERIF_OUT", VERIF)
    os.makedirs(os.path.join(out, "replays"), exist_ok=True)
    h = hashlib.sha1(key.encode()).hexdigest()[:10]
    p = os.path.join(out, "replays", f"{prop}-{h}.json")
    with open(p, "w") as fh:
        json.dump(payload, fh, indent=1)
    return p


class Verdict:
    """collects violations, matches them against KNOWN_FINDINGS.json, prints the contract lines"""

    def __init__(self, prop):
        self.prop = prop
        self.known = known_for(prop)
        self.new = []      # (key, replay path)
        self.hit = {}      # known id -> count
        self.machinery = []

    def violation(self, key, payload):
        """key: canonical description of the failing case (string). payload: replay content"""
        for k in self.known:
            if re.search(k["match"], key):
                self.hit[k["id"]] = self.hit.get(k["id"], 0) + 1
                return
        path = write_replay(self.prop, key, dict(payload, property=self.prop, key=key))
        self.new.append((key, path))

    def machinery_error(self, msg):
        self.machinery.append(msg)

    def finish(self):
        for k in self.known:
            if k["id"] in self.hit:
                print(f"KNOWN-FINDING: property={self.prop} {k['what']} (id={k['id']}, {self.hit[k['id']]} case(s) this run)")
        seen = set()
        for key, path in self.new:
            cls = key.split("|")[0]
            if cls in seen:
                continue
            seen.add(cls)
            print(f"VIOLATION property={self.prop} replay={path}")
            print(f"  {key[:300]}")
        if self.machinery:
            for m in self.machinery[:10]:
                print(f"MACHINERY-ERROR: {m[:500]}", file=sys.stderr)
            return 2 if not self.new else 1
        return 1 if self.new else 0
