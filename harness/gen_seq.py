"""Generators of sequential / concurrent bodies (C03), coroutine bodies (C01) and reset variants (C04).

Design template (all families):
  inputs  clk, a, b : Bit, [rst : Bit], d : Unsigned[2]
  outputs o : Unsigned[3] (marker register), p : Bit (pushed strobe), q : Unsigned[2] (shows variable v),
          r : BitVector[4] (slice / element targets), c : Unsigned[3] (concurrent view of state)
  objects s : Signal[Unsigned[2]], v : Variable[Unsigned[2]]
Every marker assignment writes a distinct constant, the variable v counts executions, so a statement
that is skipped or executed twice changes an output.
"""
import random, json, zlib
from adl import *  # noqa


def _as_match(th, el, sels):
    """Some generated if statements are turned into match statements.  The decision is a function of the branch contents, not
    of the generator's random stream, so adding the construct did not change the other designs of a seed."""
    h = zlib.crc32(json.dumps([th, el], sort_keys=True).encode())
    if h % 10 >= 3:
        return None
    sel = sels[(h >> 4) % len(sels)]
    k1 = (h >> 8) % 4
    k2 = (h >> 10) % 4                  # may repeat k1: the first case wins
    cases = [(pint(k1), th)]
    if (h >> 12) % 2 and el:
        cases.append((pint(k2), el))
        return match_(sel, cases, default=None if (h >> 13) % 2 else th)
    return match_(sel, cases, default=el if el else None)

U2, U3, BV4 = T("u", 2), T("u", 3), T("bv", 4)


def base_ports(with_rst, extra_in=()):
    ps = [port("clk", "in", BIT), port("a", "in", BIT), port("b", "in", BIT)]
    if with_rst:
        ps.append(port("rst", "in", BIT))
    for n, ty in extra_in:
        ps.append(port(n, "in", ty))
    return ps


class Marks:
    """distinct marker constants 1..7 (cyclic)"""

    def __init__(self):
        self.k = 0

    def next(self):
        self.k = self.k % 7 + 1
        return self.k


# ------------------------------------------------------------------ coroutine bodies (C01)
def atom(rng, m, uses):
    c = rng.random()
    if c < 0.45:
        uses.add("o")
        return [assign("next", "o", pint(m.next()))]
    if c < 0.75:
        uses.update(("v", "q"))
        return [assign("value", "v", bin_("add", ref("v"), pint(1))), assign("next", "q", ref("v"))]
    uses.add("p")
    return [assign("push", "p", TRUE)]


def cond(rng):
    return rng.choice([ref("a"), ref("b"), bin_("and", ref("a"), ref("b")), un("inv", ref("a")),
                       bin_("eq", ref("v"), pint(2)), bin_("ne", ref("v"), pint(3))])


def await_stmt(rng):
    c = rng.random()
    if c < 0.15:
        return await_(TRUE)
    return await_(rng.choice([ref("a"), ref("b"), bin_("and", ref("a"), ref("b")), un("inv", ref("b")),
                              bin_("eq", ref("v"), pint(1))]))


WAIT_HI = func("wait_hi", ["x"], [await_(ref("x"))], True)
WAIT_RET = func("wait_ret", ["x", "y"], [while_(TRUE, [await_(ref("x")), if_(ref("y"), [ret_()])])], True)


def coro_block(rng, m, uses, depth, in_loop, budget):
    """list of statements; budget bounds the total number of items"""
    out = []
    n = rng.randint(1, 3)
    for _ in range(n):
        if budget[0] <= 0:
            break
        budget[0] -= 1
        c = rng.random()
        if rng.random() < 0.08:
            out.append(comment("c"))
        if c < 0.30:
            out += atom(rng, m, uses)
        elif c < 0.55:
            aw = await_stmt(rng)
            # some awaits of a plain signal go through a sub-coroutine (decided by position, not by the random stream)
            if aw["c"]["k"] == "ref" and (budget[0] + len(out)) % 3 == 0:
                aw = ucall(WAIT_HI, [aw["c"]])
            out.append(aw)
        elif c < 0.72 and depth > 0:
            th = coro_block(rng, m, uses, depth - 1, in_loop, budget)
            el = coro_block(rng, m, uses, depth - 1, in_loop, budget) if rng.random() < 0.5 else []
            cnd = cond(rng)
            out.append(_as_match(th, el, [ref("v")]) or if_(cnd, th, el))
        elif c < 0.90 and depth > 0:
            body = coro_block(rng, m, uses, depth - 1, True, budget)
            wc = rng.choice([TRUE, ref("a"), ref("b"), bin_("ne", ref("v"), pint(3))])
            if wc is TRUE and not _has_exit(body):
                # keep `while True` loops leavable in some designs, endless in others
                if rng.random() < 0.6:
                    body = body + [if_(cond(rng), [BREAK])]
            out.append(while_(wc, body))
        elif in_loop:
            # break / continue only under an `if`; `continue` needs a preceding suspension in the loop body
            kind = rng.choice(["break", "continue"])
            if kind == "continue":
                out.append(await_stmt(rng))
                out.append(if_(cond(rng), atom(rng, m, uses) + [CONTINUE]))
            else:
                out.append(if_(cond(rng), atom(rng, m, uses) + [BREAK]))
        else:
            out += atom(rng, m, uses)
    if not out:
        out = atom(rng, m, uses)
    return out


def _has_exit(ss):
    for s in ss:
        if s["k"] == "break":
            return True
        if s["k"] == "if" and (_has_exit(s["th"]) or _has_exit(s["el"])):
            return True
        if s["k"] == "match" and (_has_exit(s["default"]) or any(_has_exit(c["body"]) for c in s["cases"])):
            return True
    return False


def _has_suspend(ss):
    for s in ss:
        if s["k"] in ("await", "while", "ucall"):
            return True
        if s["k"] == "if" and (_has_suspend(s["th"]) or _has_suspend(s["el"])):
            return True
        if s["k"] == "match" and (_has_suspend(s["default"]) or any(_has_suspend(c["body"]) for c in s["cases"])):
            return True
    return False


def ctx_opts(rng, p_step=0.25, p_fall=0.15):
    """clock enable (step_cond) and active edge variants"""
    o = {}
    if rng.random() < p_step:
        o["step"] = rng.choice([ref("b"), un("inv", ref("b")), bin_("or", ref("a"), ref("b"))])
    if rng.random() < p_fall:
        o["edge"] = "falling"
    return o


def extras(rng):
    """C04: an object without default (n) and a noreset object (k), both assigned by the clocked context
    and shown on outputs by a concurrent context; a noreset pushed port (pn)"""
    ports = [port("xn", "out", U2), port("xk", "out", U2, default=0), port("pn", "out", BIT, default=0, noreset=True)]
    objs = [obj("n", "signal", U2), obj("k", "signal", U2, default=1, noreset=True)]
    conc = conc_ctx("show", [assign("next", "xn", ref("n")), assign("next", "xk", ref("k"))])
    pre = [if_(ref("a"), [assign("next", "n", pint(rng.randint(0, 3))), assign("next", "k", bin_("add", ref("k"), pint(1)))],
               [assign("push", "pn", TRUE)] if rng.random() < 0.7 else [])]
    return ports, objs, conc, pre


def coro_entity(name, body, uses, rst=None, family="coro", extra=None, opts=None):
    ports = base_ports(rst is not None)
    ports += [port("o", "out", U3, default=0), port("p", "out", BIT, default=0), port("q", "out", U2, default=0)]
    objs = [obj("v", "variable", U2, default=0)]
    ctxs = []
    if extra:
        xp, xo, xc, pre = extra
        ports += xp
        objs += xo
        body = body + pre
        ctxs.append(xc)
    e = entity(name, ports, objs, [seq_ctx("proc", body, reset=rst, coroutine=True, **(opts or {}))] + ctxs)
    if '"wait_hi"' in json.dumps(body):
        e["funcs"] = [WAIT_HI]
    e["family"] = family
    return e


def fixed_coro_shapes():
    """hand-enumerated shapes covering each clause of C01 at least once (first-action rule, loop entry,
    back edge, continue/break, awaits in branches, restart)"""
    m = lambda k: assign("next", "o", pint(k))
    inc = [assign("value", "v", bin_("add", ref("v"), pint(1))), assign("next", "q", ref("v"))]
    A, B = ref("a"), ref("b")
    shapes = {
        "first_await": [await_(A), m(1)],
        "stmt_then_await": [m(1), await_(A), m(2)],
        "two_awaits": [await_(A), m(1), await_(B), m(2)],
        "await_true_first": [await_(TRUE), m(1), await_(A), m(2)],
        "await_true_mid": [m(1), await_(TRUE), m(2), await_(TRUE), m(3)],
        "await_false": [m(1), await_(A), m(2), await_(FALSE), m(3)],
        "if_await_one_branch": [m(1), if_(A, [await_(B), m(2)], [m(3)]), m(4)],
        "if_await_both": [if_(A, [await_(B), m(1)], [await_(TRUE), m(2)]), m(3)],
        "if_first_then_await": [if_(B, [await_(A)]), m(1)],
        "while_true_first": [while_(TRUE, [m(1), await_(A), m(2)])],
        "while_true_after_stmt": [m(3), while_(TRUE, [m(1), await_(A), m(2)])],
        "while_cond_first": [while_(A, inc), m(1)],
        "while_cond_after": [m(1), while_(A, inc), m(2)],
        "while_break": [while_(TRUE, inc + [await_(A), if_(B, [m(1), BREAK]), m(2)]), m(3)],
        "while_continue": [while_(TRUE, inc + [await_(A), if_(B, [m(1), CONTINUE]), m(2), await_(TRUE)]), m(3)],
        "while_var_cond": [while_(bin_("ne", ref("v"), pint(3)), inc), m(1), await_(A), m(2)],
        "nested_while": [while_(A, [m(1), while_(B, inc), m(2)]), m(3)],
        "nested_break_after_inner": [while_(TRUE, [m(1), while_(B, inc), if_(A, [BREAK]), m(2)]), m(3), await_(B), m(4)],
        "nested_break_before_inner": [while_(TRUE, [await_(A), if_(B, [BREAK]), while_(B, inc), m(2)]), m(3)],
        "while_in_if": [if_(A, [while_(B, inc), m(1)], [m(2)]), m(3), await_(TRUE)],
        "push_in_states": [assign("push", "p", TRUE), await_(A), m(1), assign("push", "p", TRUE), await_(B)],
        "stmt_only": [m(1)] + inc,
        "await_expr": [await_(bin_("and", A, B)), m(1), await_(bin_("eq", ref("v"), pint(0))), m(2)] + inc,
        "loop_exit_then_code": [while_(A, [m(1)]), m(2), await_(B), m(3)],
        "match_await_in_case": [m(1), match_(ref("v"), [(pint(0), [await_(A), m(2)]), (pint(1), [m(3)])], default=[await_(B), m(5)])] + inc + [m(4), await_(TRUE)],
        "match_first_statement": [match_(ref("v"), [(pint(0), [await_(A), m(1)]), (pint(2), [m(2)])])] + inc + [await_(B), m(3)],
        "match_no_suspension": [await_(A), match_(ref("v"), [(pint(1), [m(1)]), (pint(1), [m(6)]), (pint(3), [m(2)])], default=[m(3)])] + inc,
        "match_break_in_loop": [while_(TRUE, [await_(A), match_(ref("v"), [(pint(2), [m(1), BREAK])], default=inc), m(2)]), m(3), await_(B), m(4)],
        "match_loop_in_case": [match_(ref("v"), [(pint(0), [while_(A, inc), m(1)])], default=[m(2)]), m(3), await_(B)] + inc,
        "for_chain_between_awaits": [await_(A), forchain([B, A], [pint(1), pint(2)], "o", elseval=pint(3)), await_(B), forchain([A], [pint(4)], "o")],
        "always_across_states": [always_("al", bin_("and", A, B)), await_(A), assign("next", "p", ref("al")), await_(B), assign("next", "p", ref("al")), m(1)],
        "always_then_first_await": [always_("al", un("inv", A)), await_(B), m(1), await_(ref("al")), m(2)],
        "always_in_loop": [while_(TRUE, [always_("al", bin_("xor", A, B)), await_(ref("al")), m(1)] + inc)],
        "always_block_in_coroutine": [alwaysblock([assign("next", "p", bin_("and", A, B))]), await_(A), m(1), await_(B), m(2)],
        "comment_first": [comment("start"), await_(A), m(1), await_(B), m(2)],
        "comment_stmt_await": [comment("start"), m(1), await_(A), m(2)],
        "comment_later": [await_(A), comment("mid"), m(1), await_(B), comment("end"), m(2)],
        "comment_in_loop": [while_(TRUE, [comment("head"), await_(A), m(1)])],
    }
    return shapes


def coro_call_shapes():
    """awaited sub-coroutines and functions (C01: "awaited sub-coroutines", "while loops with break/continue/return")
    -> {tag: (funcs, body)}"""
    m = lambda k: assign("next", "o", pint(k))
    inc = [assign("value", "v", bin_("add", ref("v"), pint(1))), assign("next", "q", ref("v"))]
    A, B, X, Y = ref("a"), ref("b"), ref("x"), ref("y")
    wt = func("wait_hi", ["x"], [await_(X)], True)
    wt2 = func("wait_both", ["x", "y"], [await_(X), m(6), await_(Y)], True)
    nxt = func("nxt", ["x"], [ret_(bin_("add", X, pint(1)))])
    scan = func("scan", ["x", "y"], [while_(X, inc + [if_(Y, [m(5), ret_()])]), m(6)], True)
    pick = func("pick", ["x"], [await_(X), if_(B, [ret_(bin_("add", ref("v"), pint(1)))]), ret_(bin_("add", ref("v"), pint(3)))], True)
    outer = func("outer", ["x", "y"], [ucall(wt, [X]), m(2), ucall(wt, [Y])], True)
    loopret = func("loopret", ["x", "y"], [while_(X, [await_(Y), if_(A, [ret_(bin_("add", ref("v"), pint(2)))])] + inc), ret_(bin_("add", ref("v"), pint(1)))], True)
    deep = func("deep", ["x", "y"], [while_(TRUE, [while_(X, inc + [if_(Y, [ret_()])]), m(4), if_(Y, [BREAK])]), m(5)], True)
    setter = func("setter", ["t", "x"], [assign("next", "t", X), await_(TRUE)], True)
    return {
        "sub_first": ([wt], [ucall(wt, [A]), m(1)]),
        "sub_after_stmt": ([wt], [m(1), ucall(wt, [B]), m(2)]),
        "sub_twice": ([wt], [ucall(wt, [A]), m(1), ucall(wt, [B]), m(2), ucall(wt, [A]), m(3)]),
        "sub_two_states": ([wt2], [m(1), ucall(wt2, [A, B]), m(2)]),
        "sub_in_branch": ([wt], [if_(A, [ucall(wt, [B]), m(1)], [m(2)]), m(3), await_(TRUE)]),
        "sub_in_loop": ([wt], [while_(TRUE, [ucall(wt, [A]), m(1), if_(B, [BREAK])] + inc), m(2)]),
        "fn_value": ([nxt], [await_(A), ucall(nxt, [ref("v")], ret="r1"), assign("value", "v", ref("r1")), assign("next", "q", ref("v"))]),
        "sub_while_return": ([scan], [m(1), ucall(scan, [A, B]), m(2), await_(TRUE)]),
        "sub_while_return_first": ([scan], [ucall(scan, [A, B]), m(2)]),
        "sub_return_value": ([pick], [ucall(pick, [A], ret="r1"), assign("next", "q", ref("r1")), m(1)]),
        "sub_nested": ([wt, outer], [m(1), ucall(outer, [A, B]), m(3)]),
        "sub_loop_return_value": ([loopret], [ucall(loopret, [A, B], ret="r1"), assign("next", "q", ref("r1")), m(1), await_(TRUE)]),
        "sub_return_from_nested_loops": ([deep], [m(1), ucall(deep, [A, B]), m(2), await_(TRUE)]),
        "sub_in_callers_loop": ([scan], [while_(TRUE, [ucall(scan, [A, B]), m(1), await_(B)])]),
        "sub_assigns_parameter": ([setter], [ucall(setter, [ref("q"), ref("v")])] + inc[:1] + [m(1)]),
    }


def uses_of(body, acc=None):
    acc = set() if acc is None else acc
    for s in body:
        if s["k"] == "assign":
            acc.add(s["t"]["obj"])
        elif s["k"] == "if":
            uses_of(s["th"], acc)
            uses_of(s["el"], acc)
        elif s["k"] == "while":
            uses_of(s["body"], acc)
        elif s["k"] == "match":
            for c in s["cases"]:
                uses_of(c["body"], acc)
            uses_of(s["default"], acc)
        elif s["k"] == "forchain":
            acc.add(s["t"]["obj"])
        elif s["k"] == "ucall":
            uses_of(s["body"], acc)
    return acc


def coro_designs(tier, rng, prefix, resets=(None,), with_extras=False, n_random=None, opts=False):
    ents = []
    k = 0
    for tag, body in fixed_coro_shapes().items():
        for rst in resets:
            ents.append(coro_entity(f"{prefix}_{k:04d}", body, uses_of(body), rst, family=f"coro_{tag}",
                                    extra=extras(rng) if with_extras else None, opts=ctx_opts(rng) if opts else None))
            k += 1
    for tag, (funcs, body) in coro_call_shapes().items():
        for rst in resets:
            e = coro_entity(f"{prefix}_{k:04d}", body, uses_of(body), rst, family=f"coro_{tag}",
                            extra=extras(rng) if with_extras else None, opts=ctx_opts(rng) if opts else None)
            e["funcs"] = funcs
            ents.append(e)
            k += 1
    n = n_random if n_random is not None else (120 if tier == "quick" else 1500)
    for i in range(n):
        m, uses = Marks(), set()
        body = coro_block(rng, m, uses, 2, False, [rng.randint(3, 9)])
        rst = rng.choice(list(resets))
        ents.append(coro_entity(f"{prefix}_{k:04d}", body, uses, rst, family=f"coro_rnd{i}",
                                extra=extras(rng) if with_extras and rng.random() < 0.5 else None,
                                opts=ctx_opts(rng) if opts else None))
        k += 1
    return ents


# ------------------------------------------------------------------ plain sequential / concurrent bodies (C03)
def seq_expr(rng, ty, depth=2):
    """expression of type ty (u2/u3/bit) reading ports, signal s, variable v"""
    k, w = ty["k"], ty["w"]
    if k == "bit":
        c = rng.random()
        if c < 0.4 or depth == 0:
            return rng.choice([ref("a"), ref("b"), idx(ref("d"), 0), idx(ref("s"), 1), idx(ref("d"), 1)])
        if c < 0.7:
            return bin_(rng.choice(["and", "or", "xor"]), seq_expr(rng, BIT, depth - 1), seq_expr(rng, BIT, depth - 1))
        return bin_(rng.choice(["eq", "lt", "ge"]), seq_expr(rng, U2, depth - 1), seq_expr(rng, U2, depth - 1))
    if k == "u" and w == 2:
        c = rng.random()
        if c < 0.45 or depth == 0:
            return rng.choice([ref("d"), ref("s"), ref("v"), pint(rng.randint(0, 3))])
        if c < 0.8:
            l, r = seq_expr(rng, U2, depth - 1), seq_expr(rng, U2, depth - 1)
            if l["k"] == "int" and r["k"] == "int":
                l = ref("d")
            return bin_(rng.choice(["add", "sub", "and", "xor"]) if l["k"] != "int" and r["k"] != "int" else rng.choice(["add", "sub"]), l, r)
        return ifexp(seq_expr(rng, BIT, depth - 1), ref("d"), ref("s"))
    if k == "u" and w == 3:
        c = rng.random()
        if c < 0.5 or depth == 0:
            return rng.choice([pint(rng.randint(0, 7)), resize(ref("d"), 3), resize(ref("v"), 3), resize(ref("s"), 3)])
        return bin_("add", resize(rng.choice([ref("d"), ref("s"), ref("v")]), 3), pint(rng.randint(0, 3)))
    raise ValueError(ty)


def seq_stmt(rng, depth, budget):
    if budget[0] <= 0:
        return []
    budget[0] -= 1
    c = rng.random()
    if c < 0.18:
        return [assign("next", "o", seq_expr(rng, U3), form=rng.choice(["op", "attr"]))]
    if c < 0.34:
        return [assign("next", "s", seq_expr(rng, U2), form=rng.choice(["op", "attr"]))]
    if c < 0.50:
        return [assign("value", "v", seq_expr(rng, U2), form=rng.choice(["op", "attr"]))]
    if c < 0.58:
        return [assign("next", "q", seq_expr(rng, U2))]
    if c < 0.66:
        return [assign("push", "p", rng.choice([TRUE, seq_expr(rng, BIT, 1)]), form=rng.choice(["op", "attr"]))]
    if c < 0.72:
        hi = rng.randint(0, 3)
        lo = rng.randint(0, hi)
        wv = hi - lo + 1
        src = {1: slice_(ref("d"), 0, 0), 2: view(ref("d"), "bv"), 3: bin_("concat", ref("a"), ref("s")),
               4: bin_("concat", ref("d"), ref("s"))}[wv]
        return [assign("next", target("r", [p_slice(hi, lo)]), src)]
    if c < 0.78:
        return [assign("next", target("r", [p_idx(rng.randint(0, 3))]), seq_expr(rng, BIT, 1))]
    if c < 0.84:
        return [assign("next", target("r", [p_dynidx(ref("d"))]), seq_expr(rng, BIT, 1))]
    if depth > 0:
        th = seq_block(rng, depth - 1, budget)
        el = seq_block(rng, depth - 1, budget) if rng.random() < 0.6 else []
        cnd = seq_expr(rng, BIT, 1)
        return [_as_match(th, el, [ref("d"), ref("s"), ref("v")]) or if_(cnd, th, el)]
    return [assign("next", "o", seq_expr(rng, U3))]


def seq_block(rng, depth, budget):
    out = []
    for _ in range(rng.randint(1, 4)):
        out += seq_stmt(rng, depth, budget)
    return out or [assign("next", "o", pint(1))]


def conc_body(rng):
    """concurrent view of the state: c = s + v-independent function of inputs and signals"""
    e = rng.choice([
        bin_("add", resize(ref("s"), 3), pint(1)),
        resize(bin_("xor", ref("s"), ref("d")), 3),
        ifexp(ref("a"), resize(ref("s"), 3), resize(ref("d"), 3)),
        bin_("add", resize(ref("s"), 3), resize(ref("d"), 3)),
    ])
    return [assign("next", "c", e)]


def seq_entity(name, body, rst, family, conc=None, extra=None, opts=None):
    ports = base_ports(rst is not None, [("d", U2)])
    ports += [port("o", "out", U3, default=0), port("p", "out", BIT, default=0), port("q", "out", U2, default=0),
              port("r", "out", BV4, default=0), port("c", "out", U3, default=0)]
    objs = [obj("s", "signal", U2, default=0), obj("v", "variable", U2, default=0)]
    xctx = []
    if extra:
        xp, xo, xc, pre = extra
        ports += xp
        objs += xo
        body = body + pre
        xctx.append(xc)
    ctxs = [seq_ctx("proc", body, reset=rst, coroutine=False, **(opts or {}))] + xctx
    if conc:
        ctxs.append(conc_ctx("logic", conc))
    e = entity(name, ports, objs, ctxs)
    e["family"] = family
    return e


def fixed_seq_shapes():
    A, B, D, S, V = ref("a"), ref("b"), ref("d"), ref("s"), ref("v")
    return {
        "read_after_write": [assign("next", "s", D), assign("next", "q", S)],
        "last_write_wins": [assign("next", "s", pint(1)), if_(A, [assign("next", "s", pint(2))]), if_(B, [assign("next", "s", D)]), assign("next", "q", S)],
        "hold": [if_(A, [assign("next", "s", D)]), assign("next", "q", S)],
        "var_immediate": [assign("value", "v", D), assign("next", "q", V), assign("value", "v", bin_("add", V, pint(1))), assign("next", "s", V)],
        "var_persist": [if_(A, [assign("value", "v", bin_("add", V, pint(1)))]), assign("next", "q", V)],
        "push_once": [if_(A, [assign("push", "p", TRUE)]), assign("next", "q", D)],
        "push_twice": [assign("push", "p", A), if_(B, [assign("push", "p", TRUE)])],
        "slices": [assign("next", target("r", [p_slice(3, 2)]), view(D, "bv")), if_(A, [assign("next", target("r", [p_slice(1, 0)]), view(S, "bv"))]), assign("next", "s", D)],
        "elements": [assign("next", target("r", [p_idx(0)]), A), if_(B, [assign("next", target("r", [p_idx(3)]), A)])],
        "dyn_element": [assign("next", target("r", [p_dynidx(D)]), A)],
        "nested_if": [if_(A, [if_(B, [assign("next", "o", pint(1))], [assign("next", "o", pint(2))])], [if_(B, [assign("next", "o", pint(3))])])],
        "match_with_default": [match_(D, [(pint(0), [assign("next", "o", pint(1))]), (pint(2), [assign("next", "o", pint(2)), assign("next", "s", D)])],
                                      default=[assign("next", "o", pint(7))])],
        "match_without_default": [match_(D, [(pint(1), [assign("next", "o", pint(3))]), (pint(3), [assign("value", "v", D), assign("next", "q", V)])])],
        "match_bitvector_literals": [match_(view(D, "bv"), [(strlit("00"), [assign("next", "q", pint(1))]), (strlit("11"), [assign("next", "q", pint(2))])],
                                            default=[assign("next", "q", S)]), assign("next", "s", D)],
        "match_duplicate_case": [match_(D, [(pint(1), [assign("next", "o", pint(1))]), (pint(1), [assign("next", "o", pint(2)), assign("next", "q", D)]), (pint(2), [assign("next", "o", pint(4))])])],
        "match_nested_in_if": [if_(A, [match_(D, [(pint(0), [assign("push", "p", TRUE)])], default=[assign("next", "o", pint(5))])], [assign("next", "o", pint(6))])],
        "for_break_chain": [forchain([A, B, idx(D, 0)], [pint(1), pint(2), pint(3)], "o")],
        "for_break_else": [forchain([B, A], [pint(5), pint(6)], "o", elseval=resize(D, 3)), assign("next", "q", D)],
        "for_break_variable": [forchain([A, B], [D, pint(1)], "v", mode="value", elseval=pint(0)), assign("next", "q", V)],
        "always_expression": [always_("al", bin_("add", D, pint(1))), assign("next", "q", ref("al")), if_(A, [assign("next", "s", ref("al"))])],
        "always_of_own_signal": [always_("al", bin_("xor", S, D)), assign("next", "s", D), assign("next", "q", ref("al"))],
        "always_in_branch": [if_(A, [always_("al", bin_("and", D, S)), assign("next", "q", ref("al"))], [assign("next", "s", D)])],
        "always_bit": [always_("al", bin_("and", A, idx(D, 1))), if_(ref("al"), [assign("push", "p", TRUE)]), assign("next", "s", D)],
        "always_block": [alwaysblock([assign("next", "r", bin_("concat", D, S))]), assign("next", "s", D), assign("next", "q", S)],
        "always_block_two_statements": [alwaysblock([assign("next", target("r", [p_slice(1, 0)]), view(D, "bv")), assign("next", target("r", [p_slice(3, 2)]), view(S, "bv"))]),
                                        if_(A, [assign("next", "s", D)])],
        "always_block_in_branch": [if_(A, [alwaysblock([assign("next", "r", bin_("concat", S, D))]), assign("next", "s", D)], [assign("next", "s", pint(1))])],
        "elif_chain": [if_(A, [assign("next", "o", pint(1))], [if_(B, [assign("next", "o", pint(2))], [if_(bin_("eq", D, pint(3)), [assign("next", "o", pint(3))], [assign("next", "o", pint(4))])])])],
    }


def seq_call_shapes():
    """helper functions with returns in branches, functions with effects through parameters (C03) -> {tag: (funcs, body)}"""
    A, B, D, S, V, X, Y = ref("a"), ref("b"), ref("d"), ref("s"), ref("v"), ref("x"), ref("y")
    sel = func("sel", ["x", "y"], [if_(A, [ret_(bin_("add", X, pint(1)))]), if_(B, [ret_(bin_("xor", X, Y))]), ret_(bin_("and", X, Y))])
    sel2 = func("sel2", ["x"], [if_(A, [ret_(bin_("add", X, pint(1)))], [if_(B, [ret_(bin_("sub", X, pint(1)))], [ret_(bin_("add", X, pint(2)))])])])
    dec = func("dec", ["x"], [match_(X, [(pint(0), [ret_(bin_("add", X, pint(2)))]), (pint(1), [ret_(bin_("add", X, pint(1)))])],
                                     default=[ret_(bin_("sub", X, pint(1)))])])
    store = func("store", ["t", "x"], [assign("next", "t", X)])
    store_if = func("store_if", ["t", "x", "g"], [if_(ref("g"), [ret_()]), assign("next", "t", X)])
    twice = func("twice", ["x"], [ucall(sel2, [X], ret="h"), ret_(bin_("add", ref("h"), X))])
    bump = func("bump", [], [assign("value", "v", bin_("add", V, pint(1)))])
    return {
        "fn_returns_in_branches": ([sel], [ucall(sel, [D, S], ret="r1"), assign("next", "q", ref("r1")), assign("next", "s", D)]),
        "fn_returns_in_else_chain": ([sel2], [ucall(sel2, [D], ret="r1"), assign("next", "q", ref("r1"))]),
        "fn_returns_in_match": ([dec], [ucall(dec, [D], ret="r1"), assign("next", "q", ref("r1"))]),
        "fn_called_twice": ([sel2], [ucall(sel2, [D], ret="r1"), ucall(sel2, [S], ret="r2"), assign("next", "q", ref("r1")), assign("next", "s", ref("r2"))]),
        "fn_assigns_parameter": ([store], [ucall(store, [S, D]), if_(A, [ucall(store, [ref("q"), S])])]),
        "fn_early_return": ([store_if], [assign("next", "s", pint(1)), ucall(store_if, [S, D, A]), assign("next", "q", S)]),
        "fn_nested": ([sel2, twice], [ucall(twice, [D], ret="r1"), assign("next", "q", ref("r1"))]),
        "fn_variable_effect": ([bump], [ucall(bump, []), assign("next", "q", V), ucall(bump, []), assign("next", "s", V)]),
        "fn_in_branch": ([sel2], [if_(idx(D, 0), [ucall(sel2, [S], ret="r1"), assign("next", "q", ref("r1"))], [assign("next", "q", D)]), assign("next", "s", D)]),
    }


def typed_shapes():
    """arrays (element read / write with constant and run-time index, signal and variable, with and without Null default) and
    enumerations (comparison, match, select_with, if-expression) as operands (C02 "enum and array operands") -> {tag: (objs, body)}"""
    A, B, D, S, V = ref("a"), ref("b"), ref("d"), ref("s"), ref("v")
    ARR = TA(U2, 4)
    EN = TE(4)
    e = lambda k: lit(EN, k)
    M, ST = ref("mem"), ref("st")
    return {
        "array_const_index": ([obj("mem", "signal", ARR, default=0)],
                              [assign("next", target("mem", [p_idx(1)]), D), assign("next", "q", idx(M, 1)), if_(A, [assign("next", target("mem", [p_idx(3)]), S)]),
                               assign("next", "s", idx(M, 3))]),
        "array_runtime_index": ([obj("mem", "signal", ARR, default=0)],
                                [if_(A, [assign("next", target("mem", [p_dynidx(D)]), S)]), assign("next", "q", dynidx(M, S)), assign("next", "s", bin_("add", S, pint(1)))]),
        "array_no_default": ([obj("mem", "signal", ARR)],
                             [assign("next", target("mem", [p_dynidx(D)]), D), assign("next", "q", dynidx(M, D)), assign("next", "o", resize(idx(M, 0), 3))]),
        "array_variable": ([obj("mem", "variable", ARR, default=0)],
                           [assign("value", target("mem", [p_dynidx(D)]), bin_("add", dynidx(M, D), pint(1))), assign("next", "q", dynidx(M, D)),
                            assign("next", "s", idx(M, 2))]),
        "array_element_in_expression": ([obj("mem", "signal", ARR, default=0)],
                                        [assign("next", target("mem", [p_idx(0)]), D), assign("next", target("mem", [p_idx(1)]), bin_("add", idx(M, 0), idx(M, 1))),
                                         assign("next", "o", bin_("add", resize(idx(M, 1), 3), resize(dynidx(M, D), 3))), assign("next", "p", bin_("lt", idx(M, 0), idx(M, 1)))]),
        "enum_match": ([obj("st", "signal", EN, default=0)],
                       [match_(ST, [(e(0), [if_(A, [assign("next", "st", e(1))]), assign("next", "o", pint(1))]),
                                    (e(1), [assign("next", "st", e(2)), assign("next", "o", pint(2))]),
                                    (e(2), [if_(B, [assign("next", "st", e(3))], [assign("next", "st", e(0))]), assign("next", "o", pint(3))])],
                               default=[assign("next", "st", e(0)), assign("next", "o", pint(4))])]),
        "enum_compare_select": ([obj("st", "signal", EN, default=1)],
                                [assign("next", "st", select_(D, [(pint(0), e(0)), (pint(1), e(2)), (pint(2), e(3))], default=e(1))),
                                 assign("next", "p", bin_("eq", ST, e(2))), assign("next", "q", select_(ST, [(e(0), D), (e(3), S)], default=NULL)),
                                 assign("next", "s", ifexp(bin_("ne", ST, e(1)), D, S))]),
        "enum_variable": ([obj("st", "variable", EN, default=0)],
                          [if_(A, [assign("value", "st", e(3))]), if_(bin_("eq", ST, e(3)), [assign("next", "o", pint(5)), assign("value", "st", e(1))],
                                                                      [assign("next", "o", pint(6))]), assign("next", "p", bin_("eq", ST, e(1)))]),
    }


def local_shapes():
    """signals constructed inside the context: immediate initialisation (reads in the same activation see the value, whole,
    sliced, indexed - constant and run-time), delayed_init, and chains of locals"""
    D, A = ref("d"), ref("a")
    L, M = ref("loc"), ref("loc2")
    return {
        "local_whole": ([local("loc", U2, D), assign("next", "q", L), assign("next", "o", resize(L, 3))], ["loc"]),
        "local_parts": ([local("loc", U2, bin_("add", D, pint(1))), assign("next", target("r", [p_slice(1, 0)]), view(L, "bv")),
                         assign("next", target("r", [p_idx(3)]), idx(L, 1)), assign("next", "p", dynidx(L, view(slice_(D, 0, 0), "u")))], ["loc"]),
        "local_expr_of_parts": ([local("loc", U2, D), assign("next", "p", bin_("xor", idx(L, 0), idx(L, 1))),
                                 assign("next", "q", view(slice_(L, 1, 0), "u"))], ["loc"]),
        "local_chain": ([local("loc", U2, D), local("loc2", U2, bin_("add", L, pint(1))), assign("next", "q", M),
                         assign("next", "p", idx(M, 0))], ["loc", "loc2"]),
        "local_delayed": ([local("loc", U2, D, delayed=True), assign("next", "q", L), assign("next", "p", idx(L, 1))], ["loc"]),
        "local_in_branch": ([if_(A, [local("loc", U2, D), assign("next", "q", L)], [assign("next", "q", pint(0))])], ["loc"]),
    }


def seq_designs(tier, rng, prefix, resets=(None,), with_extras=False, n_random=None, opts=False):
    ents = []
    k = 0
    for tag, (body, locs) in local_shapes().items():
        for rst in resets:
            e = seq_entity(f"{prefix}_{k:04d}", body, rst, f"seq_{tag}", conc_body(rng))
            e["objs"] += [obj(n, "signal", U2, local=True) for n in locs]
            ents.append(e)
            k += 1
    for tag, (objs, body) in typed_shapes().items():
        for rst in resets:
            e = seq_entity(f"{prefix}_{k:04d}", body, rst, f"seq_{tag}", conc_body(rng))
            e["objs"] += objs
            ents.append(e)
            k += 1
    for tag, (funcs, body) in seq_call_shapes().items():
        for rst in resets:
            e = seq_entity(f"{prefix}_{k:04d}", body, rst, f"seq_{tag}", conc_body(rng))
            e["funcs"] = funcs
            ents.append(e)
            k += 1
    for tag, body in fixed_seq_shapes().items():
        for rst in resets:
            ents.append(seq_entity(f"{prefix}_{k:04d}", body, rst, f"seq_{tag}", conc_body(rng),
                                   extra=extras(rng) if with_extras else None, opts=ctx_opts(rng) if opts else None))
            k += 1
    n = n_random if n_random is not None else (100 if tier == "quick" else 1500)
    for i in range(n):
        body = seq_block(rng, 2, [rng.randint(3, 10)])
        rst = rng.choice(list(resets))
        ents.append(seq_entity(f"{prefix}_{k:04d}", body, rst, f"seq_rnd{i}", conc_body(rng) if rng.random() < 0.7 else None,
                               extra=extras(rng) if with_extras and rng.random() < 0.5 else None,
                               opts=ctx_opts(rng) if opts else None))
        k += 1
    return ents
